// Package huffref is a bit-level reference for the RFC 7541 Huffman code whose
// table is reconstructed from x/net's encoder (no table is copied from the
// package under test).
package huffref

import (
	"errors"

	"golang.org/x/net/http2/hpack"
)

type node struct {
	child [2]*node
	sym   int // -1 for inner
}

var (
	root    = &node{sym: -1}
	Codes   [256]uint32
	CodeLen [256]uint8
)

func init() {
	for s := 0; s < 256; s++ {
		eight := make([]byte, 8)
		for i := range eight {
			eight[i] = byte(s)
		}
		// 8 copies of an L-bit code occupy exactly L bytes.
		L := len(hpack.AppendHuffmanString(nil, string(eight)))
		one := hpack.AppendHuffmanString(nil, string([]byte{byte(s)}))
		var code uint32
		for i := 0; i < L; i++ {
			bit := (one[i/8] >> (7 - uint(i%8))) & 1
			code = code<<1 | uint32(bit)
		}
		Codes[s], CodeLen[s] = code, uint8(L)
		n := root
		for i := L - 1; i >= 0; i-- {
			b := (code >> uint(i)) & 1
			if n.child[b] == nil {
				n.child[b] = &node{sym: -1}
			}
			n = n.child[b]
		}
		if n.sym != -1 || n.child[0] != nil || n.child[1] != nil {
			panic("huffref: code table is not prefix free")
		}
		n.sym = s
	}
}

var (
	ErrPadding = errors.New("huffref: padding is not a proper EOS prefix of at most 7 bits")
	ErrEOS     = errors.New("huffref: EOS or invalid code inside the string")
)

// Decode is the strict RFC 7541 5.2 decoder: complete codes followed by at most
// 7 bits of padding that are all ones.
func Decode(src []byte) ([]byte, error) {
	var out []byte
	n := root
	pending := 0 // bits consumed since the last complete code
	allOnes := true
	for _, by := range src {
		for i := 7; i >= 0; i-- {
			b := (by >> uint(i)) & 1
			n = n.child[b]
			if n == nil {
				// only reachable through 30 ones (EOS): every other path exists in a complete code
				return nil, ErrEOS
			}
			pending++
			if b == 0 {
				allOnes = false
			}
			if n.sym >= 0 {
				out = append(out, byte(n.sym))
				n = root
				pending = 0
				allOnes = true
			}
		}
	}
	if pending > 7 || !allOnes {
		return nil, ErrPadding
	}
	return out, nil
}

// Encode encodes with the reconstructed table, padding with ones.
func Encode(s []byte) []byte {
	var out []byte
	var acc uint64
	var nbits uint
	for _, c := range s {
		acc = acc<<CodeLen[c] | uint64(Codes[c])
		nbits += uint(CodeLen[c])
		for nbits >= 8 {
			nbits -= 8
			out = append(out, byte(acc>>nbits))
		}
	}
	if nbits > 0 {
		pad := 8 - nbits
		out = append(out, byte(acc<<pad)|byte(1<<pad-1))
	}
	return out
}
