// vcheck drives the worker test binaries: build from /repo's working tree,
// shard, collect, attribute known findings, write evidence, print verdict lines.
package main

import (
	"bufio"
	"encoding/json"
	"fmt"
	"os"
	"os/exec"
	"path/filepath"
	"regexp"
	"sort"
	"strconv"
	"strings"
	"sync"
	"time"

	"h2v/vf"
)

type propCfg struct {
	shards   int
	race     bool          // worker built with -race, race logs parsed
	timeoutQ time.Duration // per shard watchdog, quick
	timeoutT time.Duration // per shard watchdog, thorough
	floor    int64         // minimum evaluations, else the check did not do its job
	gomaxp   bool          // vary GOMAXPROCS per shard
}

var props = map[string]propCfg{}

func init() {
	for i := 1; i <= 20; i++ {
		props[fmt.Sprintf("C%02d", i)] = propCfg{shards: 16, timeoutQ: 8 * time.Minute, timeoutT: 60 * time.Minute, floor: 10}
	}
	c := props["C19"]
	c.race, c.gomaxp = true, true
	props["C19"] = c
}

var root = "/verif"

func main() {
	if r := os.Getenv("VERIF_ROOT"); r != "" {
		root = r
	} else if exe, err := os.Executable(); err == nil {
		// bin/vcheck lives in <root>/bin
		d := filepath.Dir(filepath.Dir(exe))
		if _, err := os.Stat(filepath.Join(d, "h2v", "go.mod")); err == nil {
			root = d
		}
	}
	if len(os.Args) < 3 {
		fmt.Fprintln(os.Stderr, "usage: vcheck run <ID> [--tier quick|thorough] | vcheck replay <path>")
		os.Exit(3)
	}
	switch os.Args[1] {
	case "run":
		tier := os.Getenv("VERIF_TIER")
		for i := 3; i < len(os.Args); i++ {
			if os.Args[i] == "--tier" && i+1 < len(os.Args) {
				tier = os.Args[i+1]
			}
		}
		if tier != "thorough" {
			tier = "quick"
		}
		os.Exit(run(os.Args[2], tier, ""))
	case "replay":
		b, err := os.ReadFile(os.Args[2])
		if err != nil {
			fmt.Fprintln(os.Stderr, err)
			os.Exit(3)
		}
		var rp struct {
			Property string `json:"property"`
			Seed     int64  `json:"seed"`
			Tier     string `json:"tier"`
			Case     string `json:"case"`
		}
		if err := json.Unmarshal(b, &rp); err != nil {
			fmt.Fprintln(os.Stderr, err)
			os.Exit(3)
		}
		os.Setenv("VERIF_SEED", strconv.FormatInt(rp.Seed, 10))
		os.Exit(run(rp.Property, rp.Tier, rp.Case))
	}
	os.Exit(3)
}

func build(race bool, out string) error {
	args := []string{"test", "-c", "-tags", "verif", "-vet=off", "-o", out}
	if race {
		args = append(args, "-race")
	}
	if alt := os.Getenv("VERIF_REPO"); alt != "" {
		// Development aid only (never set by a registered command): judge a scratch
		// worktree of dgrr/http2 instead of /repo, so that seeded mutations can be
		// tried in parallel without touching /repo. No evidence file is written.
		mod, err := os.ReadFile(filepath.Join(root, "h2v", "go.mod"))
		if err != nil {
			return err
		}
		mf := filepath.Join(filepath.Dir(out), "go.mod")
		os.WriteFile(mf, []byte(strings.Replace(string(mod), "=> /repo", "=> "+alt, 1)), 0o644)
		sum, _ := os.ReadFile(filepath.Join(root, "h2v", "go.sum"))
		os.WriteFile(filepath.Join(filepath.Dir(out), "go.sum"), sum, 0o644)
		args = append(args, "-modfile="+mf)
	}
	args = append(args, "./workers")
	cmd := exec.Command(filepath.Join(root, "bin", "vgo"), args...)
	cmd.Dir = filepath.Join(root, "h2v")
	b, err := cmd.CombinedOutput()
	if err != nil {
		return fmt.Errorf("build failed: %v\n%s", err, b)
	}
	return nil
}

func run(id, tier, only string) int {
	cfg, ok := props[id]
	if !ok {
		fmt.Fprintf(os.Stderr, "unknown property %s\n", id)
		return 3
	}
	start := time.Now()
	seed := int64(1)
	if v := os.Getenv("VERIF_SEED"); v != "" {
		if n, err := strconv.ParseInt(v, 10, 64); err == nil {
			seed = n
		}
	}
	bdir := filepath.Join(root, ".build", fmt.Sprintf("%s.%d", id, os.Getpid()))
	os.MkdirAll(bdir, 0o755)
	defer os.RemoveAll(bdir)
	bin := filepath.Join(bdir, "worker.test")
	if err := build(cfg.race, bin); err != nil {
		// A tree that does not compile with hooks on cannot be judged: harness failure.
		fmt.Fprintln(os.Stderr, err)
		return 3
	}
	n := cfg.shards
	if only != "" {
		n = 1
	}
	if v := os.Getenv("VERIF_SHARDS"); v != "" {
		if k, err := strconv.Atoi(v); err == nil && k > 0 {
			n = k
		}
	}
	to := cfg.timeoutQ
	if tier == "thorough" {
		to = cfg.timeoutT
	}
	type shardOut struct {
		res     *vf.Result
		crashed bool
		timeout bool
		log     string
		prog    string
	}
	outs := make([]shardOut, n)
	var wg sync.WaitGroup
	for i := 0; i < n; i++ {
		wg.Add(1)
		go func(i int) {
			defer wg.Done()
			outF := filepath.Join(bdir, fmt.Sprintf("res.%d.json", i))
			logF := filepath.Join(bdir, fmt.Sprintf("log.%d.txt", i))
			progF := filepath.Join(bdir, fmt.Sprintf("prog.%d.txt", i))
			lf, _ := os.Create(logF)
			secs := int(to.Seconds())
			cmd := exec.Command("timeout", "-s", "QUIT", "-k", "20", strconv.Itoa(secs), bin,
				"-test.run", "^Test"+id+"$", "-test.timeout", "0", "-test.v")
			cmd.Dir = bdir
			cmd.Stdout, cmd.Stderr = lf, lf
			env := append(os.Environ(),
				"VERIF_SEED="+strconv.FormatInt(seed, 10), "VERIF_TIER="+tier,
				"VERIF_SHARD="+strconv.Itoa(i), "VERIF_NSHARDS="+strconv.Itoa(n),
				"VERIF_OUT="+outF, "VERIF_ROOT="+root, "VERIF_PROGRESS="+progF, "VERIF_ONLY_CASE="+only)
			if cfg.race {
				env = append(env, "GORACE=halt_on_error=0 log_path="+filepath.Join(bdir, fmt.Sprintf("race.%d", i)))
			}
			if cfg.gomaxp {
				env = append(env, "GOMAXPROCS="+strconv.Itoa([]int{16, 4, 2, 8, 1, 16, 3, 6}[i%8]))
			}
			cmd.Env = env
			err := cmd.Run()
			lf.Close()
			so := shardOut{log: logF}
			if b, e := os.ReadFile(progF); e == nil {
				so.prog = string(b)
			}
			if b, e := os.ReadFile(outF); e == nil {
				var r vf.Result
				if json.Unmarshal(b, &r) == nil && r.Done {
					so.res = &r
				}
			}
			if so.res == nil {
				if ee, ok := err.(*exec.ExitError); ok && ee.ExitCode() == 124 {
					so.timeout = true
				} else {
					so.crashed = true
				}
			}
			outs[i] = so
		}(i)
	}
	wg.Wait()

	// merge
	var evals, nontriv int64
	shapes := map[uint64]struct{}{}
	overflow := false
	var samples []any
	var viol []vf.Violation
	violN := 0
	known := map[string]int{}
	inconc := map[string]int{}
	counters := map[string]int64{}
	sets := map[string]map[string]struct{}{}
	var exhaustive []string
	rule := ""
	var assumptions []string
	harnessFail := false
	for i, so := range outs {
		if so.res == nil {
			keep := filepath.Join(root, "replays", id, fmt.Sprintf("%d-shard%d-crash.log", seed, i))
			os.MkdirAll(filepath.Dir(keep), 0o755)
			b, _ := os.ReadFile(so.log)
			if len(b) > 400000 {
				b = append(b[:200000], b[len(b)-200000:]...)
			}
			os.WriteFile(keep, append([]byte("case in progress: "+so.prog+"\n"), b...), 0o644)
			if so.timeout {
				inconc[fmt.Sprintf("shard %d watchdog expired (%s); log %s", i, strings.SplitN(so.prog, "\n", 2)[0], keep)]++
				harnessFail = true
				continue
			}
			violN++
			viol = append(viol, vf.Violation{Rule: id + ".process-crash", Case: strings.SplitN(so.prog, "\n", 2)[0],
				Detail: "worker process died (fatal error / unrecovered panic / os.Exit); log kept at " + keep + "\n" + tailStr(string(b), 1500)})
			continue
		}
		r := so.res
		evals += r.Evaluations
		nontriv += r.Nontrivial
		for _, h := range r.Shapes {
			shapes[h] = struct{}{}
		}
		overflow = overflow || r.ShapesOverflow
		for _, s := range r.Samples {
			if len(samples) < 5 {
				samples = append(samples, s)
			}
		}
		viol = append(viol, r.Violations...)
		violN += r.ViolationsN
		for k, v := range r.Known {
			known[k] += v
		}
		for k, v := range r.Inconclusive {
			inconc[k] += v
		}
		for k, v := range r.Counters {
			if strings.HasPrefix(k, "max.") {
				if v > counters[k] {
					counters[k] = v
				}
			} else {
				counters[k] += v
			}
		}
		for k, v := range r.Sets {
			if sets[k] == nil {
				sets[k] = map[string]struct{}{}
			}
			for _, e := range v {
				sets[k][e] = struct{}{}
			}
		}
		for _, e := range r.Exhaustive {
			found := false
			for _, x := range exhaustive {
				found = found || x == e
			}
			if !found {
				exhaustive = append(exhaustive, e)
			}
		}
		if r.Rule != "" {
			rule = r.Rule
			assumptions = r.Assumptions
		}
	}

	// A report made after a bubble of the same worker process had been abandoned by the real-time watchdog (its goroutines
	// keep running and share the process' pools with the later cases) is confirmed in a fresh process, case alone, before it
	// is believed: up to three tries. What does not reproduce is listed as inconclusive, not as a violation.
	if only == "" {
		var kept []vf.Violation
		confirmed := map[string]bool{}
		for _, v := range viol {
			if !v.Tainted {
				kept = append(kept, v)
				continue
			}
			ok, tried := confirmed[v.Case]
			if !tried {
				for try := 0; try < 3 && !ok; try++ {
					ok = reproduces(bin, bdir, id, tier, seed, v.Case, try)
				}
				confirmed[v.Case] = ok
			}
			if ok {
				kept = append(kept, v)
			} else {
				violN--
				inconc[fmt.Sprintf("%s on case %s was reported after an abandoned bubble in the same worker process and did not reproduce in a fresh process (3 tries)", v.Rule, v.Case)]++
			}
		}
		viol = kept
	}
	findings := loadFindings()
	raceInfo := map[string]any{}
	if cfg.race {
		rv := parseRaceLogs(bdir, id, findings, known, raceInfo, seed)
		viol = append(viol, rv...)
		violN += len(rv)
	}

	// verdict lines
	exit := 0
	seen := map[string]bool{}
	for _, v := range viol {
		key := v.Rule + "|" + v.Case
		if seen[key] {
			continue
		}
		seen[key] = true
		p := writeReplay(id, seed, tier, v)
		fmt.Printf("VIOLATION property=%s replay=%s\n", id, p)
		fmt.Printf("  rule=%s case=%s triggers=%v\n  %s\n", v.Rule, v.Case, v.Triggers, strings.ReplaceAll(firstN(v.Detail, 1200), "\n", "\n  "))
		exit = 1
	}
	if violN > len(viol) {
		fmt.Printf("  (+%d more violations not listed)\n", violN-len(viol))
	}
	var kn []string
	for k := range known {
		kn = append(kn, k)
	}
	sort.Strings(kn)
	for _, k := range kn {
		what := k
		for _, f := range findings {
			if f.ID == k {
				what = f.What
			}
		}
		fmt.Printf("KNOWN-FINDING: property=%s %s [%s, reproduced on %d cases]\n", id, what, k, known[k])
	}
	inN := 0
	for k, v := range inconc {
		fmt.Printf("INCONCLUSIVE: property=%s %s (x%d)\n", id, k, v)
		inN += v
	}

	distinct := len(shapes)
	setCounts := map[string]any{}
	setSamples := map[string][]string{}
	for k, m := range sets {
		setCounts[k] = len(m)
		var l []string
		for e := range m {
			l = append(l, e)
		}
		sort.Strings(l)
		if len(l) > 60 {
			l = l[:60]
		}
		setSamples[k] = l
	}
	cov := map[string]any{
		"evaluations":         evals,
		"nontrivial":          nontriv,
		"distinct_nontrivial": distinct,
		"rule":                rule,
		"samples":             samples,
		"counters":            counters,
		"distinct_observed":   setCounts,
		"observed_examples":   setSamples,
		"known_findings_reproduced": known,
		"inconclusive":        inconc,
		"shards":              n,
	}
	if overflow {
		cov["distinct_nontrivial_note"] = "shape set capped per shard; count is a lower bound"
	}
	if len(exhaustive) > 0 && exit == 0 {
		cov["exhaustive"] = true
		cov["exhaustive_subspaces"] = exhaustive
	}
	for k, v := range raceInfo {
		cov[k] = v
	}
	if samples == nil {
		cov["samples"] = []any{}
	}
	ev := map[string]any{
		"property_id": id, "tier": tier, "seed": seed, "level": "exploration",
		"coverage": cov, "assumptions": assumptions, "wall_s": time.Since(start).Seconds(), "violations": violN,
	}
	if only == "" && os.Getenv("VERIF_REPO") == "" {
		b, _ := json.MarshalIndent(ev, "", " ")
		os.MkdirAll(filepath.Join(root, "evidence"), 0o755)
		os.WriteFile(filepath.Join(root, "evidence", id+".json"), b, 0o644)
	}
	fmt.Printf("%s tier=%s seed=%d: evaluations=%d distinct_nontrivial=%d violations=%d known=%d inconclusive=%d wall=%.1fs\n",
		id, tier, seed, evals, distinct, violN, len(known), inN, time.Since(start).Seconds())
	if exit == 1 {
		return 1
	}
	if only != "" {
		return 0
	}
	if harnessFail {
		fmt.Fprintln(os.Stderr, "harness failure: a shard did not finish")
		return 3
	}
	if evals < cfg.floor || distinct < 2 || len(samples) == 0 {
		fmt.Fprintf(os.Stderr, "harness failure: observed too little (evaluations=%d distinct=%d)\n", evals, distinct)
		return 3
	}
	if evals > 0 && int64(inN)*50 > evals {
		fmt.Fprintf(os.Stderr, "harness failure: %d of %d cases inconclusive\n", inN, evals)
		return 3
	}
	return 0
}

// reproduces runs one case alone in a fresh worker process and says whether it reports any violation.
func reproduces(bin, bdir, id, tier string, seed int64, caseID string, try int) bool {
	outF := filepath.Join(bdir, fmt.Sprintf("confirm.%d.json", try))
	os.Remove(outF)
	cmd := exec.Command("timeout", "-s", "QUIT", "-k", "20", "600", bin, "-test.run", "^Test"+id+"$", "-test.timeout", "0")
	cmd.Dir = bdir
	cmd.Env = append(os.Environ(), "VERIF_SEED="+strconv.FormatInt(seed, 10), "VERIF_TIER="+tier, "VERIF_SHARD=0", "VERIF_NSHARDS=1",
		"VERIF_OUT="+outF, "VERIF_ROOT="+root, "VERIF_ONLY_CASE="+caseID)
	cmd.Run()
	b, err := os.ReadFile(outF)
	if err != nil {
		return true // the case cannot even be run alone: keep the report
	}
	var r vf.Result
	if json.Unmarshal(b, &r) != nil {
		return true
	}
	return r.ViolationsN > 0
}

func firstN(s string, n int) string {
	if len(s) > n {
		return s[:n] + "…"
	}
	return s
}

func tailStr(s string, n int) string {
	if len(s) > n {
		return "…" + s[len(s)-n:]
	}
	return s
}

func loadFindings() []vf.Finding {
	var f struct {
		Findings []vf.Finding `json:"findings"`
	}
	b, err := os.ReadFile(filepath.Join(root, "known_findings.json"))
	if err == nil {
		json.Unmarshal(b, &f)
	}
	return f.Findings
}

var unsafeName = regexp.MustCompile(`[^A-Za-z0-9_.-]+`)

func writeReplay(id string, seed int64, tier string, v vf.Violation) string {
	dir := filepath.Join(root, "replays", id)
	os.MkdirAll(dir, 0o755)
	name := fmt.Sprintf("%d-%s-%s.json", seed, unsafeName.ReplaceAllString(v.Rule, "_"), unsafeName.ReplaceAllString(firstN(v.Case, 80), "_"))
	p := filepath.Join(dir, name)
	b, _ := json.MarshalIndent(map[string]any{
		"property": id, "seed": seed, "tier": tier, "case": v.Case, "rule": v.Rule,
		"detail": v.Detail, "triggers": v.Triggers, "replay": v.Replay,
	}, "", " ")
	os.WriteFile(p, b, 0o644)
	return p
}

// ---- race logs -------------------------------------------------------------

var fnLine = regexp.MustCompile(`^\s+(github\.com/dgrr/http2\.\S+?)\(\)\s*$`)

func parseRaceLogs(bdir, id string, findings []vf.Finding, known map[string]int, info map[string]any, seed int64) []vf.Violation {
	files, _ := filepath.Glob(filepath.Join(bdir, "race.*"))
	type rep struct {
		text string
		pair string
	}
	raw := 0
	pairs := map[string]*rep{}
	pairN := map[string]int{}
	for _, f := range files {
		fh, err := os.Open(f)
		if err != nil {
			continue
		}
		sc := bufio.NewScanner(fh)
		sc.Buffer(make([]byte, 1<<20), 1<<24)
		var cur []string
		flush := func() {
			if len(cur) == 0 {
				return
			}
			raw++
			// the innermost dgrr/http2 function of each of the two accesses
			var inner []string
			section := -1
			got := map[int]bool{}
			for _, l := range cur {
				if strings.HasPrefix(l, "Write at") || strings.HasPrefix(l, "Read at") || strings.HasPrefix(l, "Previous write at") || strings.HasPrefix(l, "Previous read at") {
					section++
					continue
				}
				if strings.HasPrefix(l, "Goroutine ") {
					section = 99
				}
				if section >= 0 && section < 2 && !got[section] {
					if m := fnLine.FindStringSubmatch(l); m != nil {
						name := strings.TrimPrefix(m[1], "github.com/dgrr/http2.")
						if strings.HasPrefix(name, "verif") || strings.HasPrefix(name, "Verif") {
							continue // a verification hook frame: look further down the stack
						}
						got[section] = true
						inner = append(inner, name)
					}
				}
			}
			if len(inner) > 0 {
				sort.Strings(inner)
				p := strings.Join(inner, " <-> ")
				pairN[p]++
				if pairs[p] == nil {
					pairs[p] = &rep{text: strings.Join(cur, "\n"), pair: p}
				}
			} else {
				pairN["(no dgrr/http2 frame)"]++
			}
			cur = nil
		}
		for sc.Scan() {
			l := sc.Text()
			if strings.HasPrefix(l, "WARNING: DATA RACE") {
				flush()
				cur = []string{l}
				continue
			}
			if strings.HasPrefix(l, "==================") {
				flush()
				continue
			}
			if cur != nil {
				cur = append(cur, l)
			}
		}
		flush()
		fh.Close()
	}
	info["race_reports_raw"] = raw
	info["race_reports_by_pair"] = pairN
	var out []vf.Violation
	var ps []string
	for p := range pairs {
		ps = append(ps, p)
	}
	sort.Strings(ps)
	for _, p := range ps {
		matched := false
		for _, f := range findings {
			if f.Status == "open" && f.Property == id && f.Rule == id+".data-race" && f.Trigger == "race.pair("+p+")" {
				known[f.ID] += pairN[p]
				matched = true
			}
		}
		if !matched {
			out = append(out, vf.Violation{Rule: id + ".data-race", Case: "race.pair(" + p + ")", Detail: pairs[p].text})
		}
	}
	return out
}
