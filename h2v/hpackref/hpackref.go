// Package hpackref is the harness' own RFC 7541 encoder (with explicit
// representation choices) and strict decoder. It shares no code with the
// package under test; the static table is read out of x/net's decoder.
package hpackref

import (
	"errors"
	"fmt"

	"golang.org/x/net/http2/hpack"

	"h2v/huffref"
)

type Field struct {
	Name, Value string
	Sensitive   bool
}

func (f Field) Size() uint32 { return uint32(len(f.Name) + len(f.Value) + 32) }

// Static[1..61]
var Static [62]Field

func init() {
	d := hpack.NewDecoder(4096, nil)
	for i := 1; i <= 61; i++ {
		fs, err := d.DecodeFull([]byte{0x80 | byte(i)})
		if err != nil || len(fs) != 1 {
			panic("hpackref: cannot read static table from x/net")
		}
		Static[i] = Field{Name: fs[0].Name, Value: fs[0].Value}
	}
}

// Table is a dynamic table, newest entry first.
type Table struct {
	Ents []Field
	Size uint32
	Max  uint32
}

func (t *Table) Add(f Field) {
	f.Sensitive = false
	if f.Size() > t.Max {
		t.Ents, t.Size = nil, 0
		return
	}
	t.Ents = append([]Field{f}, t.Ents...)
	t.Size += f.Size()
	t.evict()
}

func (t *Table) evict() {
	for t.Size > t.Max && len(t.Ents) > 0 {
		l := t.Ents[len(t.Ents)-1]
		t.Size -= l.Size()
		t.Ents = t.Ents[:len(t.Ents)-1]
	}
}

func (t *Table) SetMax(n uint32) { t.Max = n; t.evict() }

// At returns the entry at HPACK index i (1-based, static then dynamic).
func (t *Table) At(i uint64) (Field, bool) {
	if i >= 1 && i <= 61 {
		return Static[i], true
	}
	if i >= 62 && i-62 < uint64(len(t.Ents)) {
		return t.Ents[i-62], true
	}
	return Field{}, false
}

// Find returns an index with matching name+value, and an index with matching name (0 if none).
// pick selects among candidates deterministically when several exist (pick >= 0).
func (t *Table) Find(name, value string, pick int) (full, nameOnly uint64) {
	var fulls, names []uint64
	for i := 1; i <= 61; i++ {
		if Static[i].Name == name {
			names = append(names, uint64(i))
			if Static[i].Value == value {
				fulls = append(fulls, uint64(i))
			}
		}
	}
	for i, e := range t.Ents {
		if e.Name == name {
			names = append(names, uint64(62+i))
			if e.Value == value {
				fulls = append(fulls, uint64(62+i))
			}
		}
	}
	if len(fulls) > 0 {
		full = fulls[pick%len(fulls)]
	}
	if len(names) > 0 {
		nameOnly = names[pick%len(names)]
	}
	return
}

// ---- encoder -------------------------------------------------------------------

const (
	RepIndexed     = 0 // indexed if a full match exists, else falls back to Incremental
	RepIncremental = 1
	RepWithout     = 2
	RepNever       = 3
)

type Choice struct {
	Rep       int
	NameIndex bool // use an indexed name when one exists
	HuffName  bool
	HuffValue bool
	Pick      int
}

type Enc struct {
	T Table
}

func NewEnc(max uint32) *Enc { return &Enc{T: Table{Max: max}} }

func AppendInt(dst []byte, first byte, prefix uint, v uint64) []byte {
	lim := uint64(1)<<prefix - 1
	if v < lim {
		return append(dst, first|byte(v))
	}
	dst = append(dst, first|byte(lim))
	v -= lim
	for v >= 128 {
		dst = append(dst, byte(v&127)|128)
		v >>= 7
	}
	return append(dst, byte(v))
}

func AppendString(dst []byte, s string, huff bool) []byte {
	if huff {
		e := huffref.Encode([]byte(s))
		dst = AppendInt(dst, 0x80, 7, uint64(len(e)))
		return append(dst, e...)
	}
	dst = AppendInt(dst, 0, 7, uint64(len(s)))
	return append(dst, s...)
}

func (e *Enc) SizeUpdate(dst []byte, n uint32) []byte {
	e.T.SetMax(n)
	return AppendInt(dst, 0x20, 5, uint64(n))
}

// Field appends one representation of f and updates the table. It returns the
// representation actually used.
func (e *Enc) Field(dst []byte, f Field, c Choice) ([]byte, int) {
	full, nameIdx := e.T.Find(f.Name, f.Value, c.Pick)
	rep := c.Rep
	if f.Sensitive {
		rep = RepNever
	}
	if rep == RepIndexed {
		if full != 0 {
			return AppendInt(dst, 0x80, 7, full), RepIndexed
		}
		rep = RepIncremental
	}
	if !c.NameIndex {
		nameIdx = 0
	}
	var first byte
	var prefix uint
	switch rep {
	case RepIncremental:
		first, prefix = 0x40, 6
	case RepWithout:
		first, prefix = 0x00, 4
	case RepNever:
		first, prefix = 0x10, 4
	}
	dst = AppendInt(dst, first, prefix, nameIdx)
	if nameIdx == 0 {
		dst = AppendString(dst, f.Name, c.HuffName)
	}
	dst = AppendString(dst, f.Value, c.HuffValue)
	if rep == RepIncremental {
		e.T.Add(f)
	}
	return dst, rep
}

// ---- strict decoder --------------------------------------------------------------

var (
	ErrTruncated = errors.New("hpackref: truncated")
	ErrOverflow  = errors.New("hpackref: integer overflow")
)

type Dec struct {
	T       Table
	Allowed uint32 // SETTINGS_HEADER_TABLE_SIZE the decoder advertised
	// MustUpdate: the advertised limit was lowered below the table's current
	// maximum; the next block has to start with a size update <= MustUpdateMax.
	MustUpdate    bool
	MustUpdateMax uint32
}

func NewDec(allowed uint32) *Dec {
	return &Dec{T: Table{Max: min(allowed, 4096)}, Allowed: allowed}
}

// SetAllowed models the decoder's side changing SETTINGS_HEADER_TABLE_SIZE (acknowledged by the encoder).
func (d *Dec) SetAllowed(n uint32) {
	d.Allowed = n
	if n < d.T.Max {
		if !d.MustUpdate || n < d.MustUpdateMax {
			d.MustUpdateMax = n // the smallest limit since the last block has to be announced first
		}
		d.MustUpdate = true
	}
}

func ReadInt(b []byte, prefix uint) (uint64, []byte, error) {
	if len(b) == 0 {
		return 0, b, ErrTruncated
	}
	lim := uint64(1)<<prefix - 1
	v := uint64(b[0]) & lim
	b = b[1:]
	if v < lim {
		return v, b, nil
	}
	var shift uint
	for {
		if len(b) == 0 {
			return 0, b, ErrTruncated
		}
		c := b[0]
		b = b[1:]
		if shift >= 63 {
			return 0, b, ErrOverflow
		}
		add := uint64(c&127) << shift
		if add>>shift != uint64(c&127) || v+add < v {
			return 0, b, ErrOverflow
		}
		v += add
		shift += 7
		if c&128 == 0 {
			return v, b, nil
		}
	}
}

func readString(b []byte) (string, []byte, error) {
	if len(b) == 0 {
		return "", b, ErrTruncated
	}
	huff := b[0]&0x80 != 0
	n, b, err := ReadInt(b, 7)
	if err != nil {
		return "", b, err
	}
	if uint64(len(b)) < n {
		return "", b, ErrTruncated
	}
	raw := b[:n]
	b = b[n:]
	if huff {
		s, err := huffref.Decode(raw)
		if err != nil {
			return "", b, err
		}
		return string(s), b, nil
	}
	return string(raw), b, nil
}

// DecodeBlock decodes one complete header block.
func (d *Dec) DecodeBlock(b []byte) ([]Field, error) {
	var out []Field
	first := true
	sawUpdate := false
	for len(b) > 0 {
		c := b[0]
		switch {
		case c&0x80 != 0:
			if d.MustUpdate && !sawUpdate {
				return out, errors.New("hpackref: block does not start with the required table size update")
			}
			idx, rest, err := ReadInt(b, 7)
			if err != nil {
				return out, err
			}
			b = rest
			f, ok := d.T.At(idx)
			if !ok {
				return out, fmt.Errorf("hpackref: invalid index %d", idx)
			}
			out = append(out, f)
			first = false
		case c&0xe0 == 0x20:
			if !first {
				return out, errors.New("hpackref: table size update after a field")
			}
			n, rest, err := ReadInt(b, 5)
			if err != nil {
				return out, err
			}
			b = rest
			if n > uint64(d.Allowed) {
				return out, fmt.Errorf("hpackref: size update %d above the limit %d", n, d.Allowed)
			}
			if d.MustUpdate && !sawUpdate && n > uint64(d.MustUpdateMax) {
				return out, fmt.Errorf("hpackref: first size update %d above the lowered limit %d", n, d.MustUpdateMax)
			}
			sawUpdate = true
			d.MustUpdate = false
			d.T.SetMax(uint32(n))
		default:
			if d.MustUpdate && !sawUpdate {
				return out, errors.New("hpackref: block does not start with the required table size update")
			}
			var prefix uint = 4
			incremental := false
			sens := false
			if c&0xc0 == 0x40 {
				prefix, incremental = 6, true
			} else if c&0xf0 == 0x10 {
				sens = true
			}
			idx, rest, err := ReadInt(b, prefix)
			if err != nil {
				return out, err
			}
			b = rest
			var f Field
			if idx != 0 {
				e, ok := d.T.At(idx)
				if !ok {
					return out, fmt.Errorf("hpackref: invalid name index %d", idx)
				}
				f.Name = e.Name
			} else {
				f.Name, b, err = readString(b)
				if err != nil {
					return out, err
				}
			}
			f.Value, b, err = readString(b)
			if err != nil {
				return out, err
			}
			f.Sensitive = sens
			out = append(out, f)
			if incremental {
				d.T.Add(f)
			}
			first = false
		}
	}
	if d.MustUpdate && !sawUpdate && len(out) > 0 {
		return out, errors.New("hpackref: block does not start with the required table size update")
	}
	return out, nil
}
