// Package wire is the harness' raw HTTP/2 frame writer: it can produce what
// x/net's Framer refuses to (reserved bits, unknown flags, wrong lengths).
package wire

import "encoding/binary"

const (
	TData         = 0
	THeaders      = 1
	TPriority     = 2
	TRstStream    = 3
	TSettings     = 4
	TPushPromise  = 5
	TPing         = 6
	TGoAway       = 7
	TWindowUpdate = 8
	TContinuation = 9

	FEndStream  = 0x1
	FAck        = 0x1
	FEndHeaders = 0x4
	FPadded     = 0x8
	FPriority   = 0x20
)

const Preface = "PRI * HTTP/2.0\r\n\r\nSM\r\n\r\n"

// Frame appends a frame with an explicit length field (lenOverride<0: real length).
func Frame(dst []byte, typ, flags byte, stream uint32, payload []byte, lenOverride int) []byte {
	n := len(payload)
	if lenOverride >= 0 {
		n = lenOverride
	}
	dst = append(dst, byte(n>>16), byte(n>>8), byte(n), typ, flags)
	dst = binary.BigEndian.AppendUint32(dst, stream)
	return append(dst, payload...)
}

// Pad wraps body into a padded payload: [padlen][body][padlen zero bytes].
func Pad(body []byte, padLen int) []byte {
	out := make([]byte, 0, 1+len(body)+padLen)
	out = append(out, byte(padLen))
	out = append(out, body...)
	return append(out, make([]byte, padLen)...)
}

func U32(v uint32) []byte { return binary.BigEndian.AppendUint32(nil, v) }

// PriorityFields is the 5-byte priority section.
func PriorityFields(dep uint32, exclusive bool, weight byte) []byte {
	if exclusive {
		dep |= 1 << 31
	}
	return append(U32(dep), weight)
}

type Setting struct {
	ID  uint16
	Val uint32
}

func SettingsPayload(ss []Setting) []byte {
	var out []byte
	for _, s := range ss {
		out = binary.BigEndian.AppendUint16(out, s.ID)
		out = binary.BigEndian.AppendUint32(out, s.Val)
	}
	return out
}

func GoAwayPayload(last uint32, code uint32, debug []byte) []byte {
	return append(append(U32(last), U32(code)...), debug...)
}
