// Package fakeconn is an in-memory, buffered, TCP-like net.Conn pair built on
// sync.Mutex + sync.Cond (durably blocking under testing/synctest), with
// configurable capacity per direction, deadlines, half-visible close semantics
// (buffered data survives the sender's close) and write fault injection.
package fakeconn

import (
	"errors"
	"io"
	"net"
	"os"
	"sync"
	"syscall"
	"time"
)

type half struct {
	mu      sync.Mutex
	cond    *sync.Cond
	buf     []byte
	cap     int
	wclosed bool // writer closed: reader sees EOF after draining
	rclosed bool // reader closed: writer sees EPIPE
	reset   bool // abortive close: reader sees ECONNRESET at once
	rdl     time.Time
	wdl     time.Time
	rtimer  *time.Timer
	wtimer  *time.Timer
	total   int64 // bytes ever written into this half
	read    int64 // bytes ever read from this half
	log     []byte
	keepLog bool
}

func newHalf(capacity int) *half {
	h := &half{cap: capacity}
	h.cond = sync.NewCond(&h.mu)
	return h
}

type addr string

func (a addr) Network() string { return "fake" }
func (a addr) String() string  { return string(a) }

// Conn is one end of a pair.
type Conn struct {
	in, out *half
	name    string
	closed  bool
	cmu     sync.Mutex

	// write faults (SUT side): after FailWriteAfter bytes written in total the next Write fails with WriteErr.
	FailWriteAfter int64 // <0: never
	WriteErr       error
	// ShortWrites makes every Write deliver at most this many bytes per inner step (0 = no limit);
	// it only changes scheduling granularity, never the byte stream.
	writes int64
	// FailWriteN: the N-th Write call (1-based) fails; 0 = never.
	FailWriteN int64
}

// Pair returns two connected ends. capAB is the buffer for bytes from a to b.
func Pair(capAB, capBA int) (a, b *Conn) {
	if capAB < 1 {
		capAB = 1
	}
	if capBA < 1 {
		capBA = 1
	}
	ab, ba := newHalf(capAB), newHalf(capBA)
	a = &Conn{in: ba, out: ab, name: "a", FailWriteAfter: -1}
	b = &Conn{in: ab, out: ba, name: "b", FailWriteAfter: -1}
	return a, b
}

// KeepLog records every byte written by this end.
func (c *Conn) KeepLog() { c.out.mu.Lock(); c.out.keepLog = true; c.out.mu.Unlock() }

// Written returns the bytes this end has written so far (needs KeepLog).
func (c *Conn) Written() []byte {
	c.out.mu.Lock()
	defer c.out.mu.Unlock()
	return append([]byte{}, c.out.log...)
}

// Counters: bytes written by this end, and how many of them the peer has read.
func (c *Conn) Counters() (written, peerRead int64) {
	c.out.mu.Lock()
	defer c.out.mu.Unlock()
	return c.out.total, c.out.read
}

// InBuffered returns how many bytes are waiting to be read by this end.
func (c *Conn) InBuffered() int {
	c.in.mu.Lock()
	defer c.in.mu.Unlock()
	return len(c.in.buf)
}

type timeoutErr struct{}

func (timeoutErr) Error() string   { return "i/o timeout" }
func (timeoutErr) Timeout() bool   { return true }
func (timeoutErr) Temporary() bool { return true }
func (timeoutErr) Unwrap() error   { return os.ErrDeadlineExceeded }

func (c *Conn) Read(p []byte) (int, error) {
	h := c.in
	h.mu.Lock()
	defer h.mu.Unlock()
	for {
		if c.isClosed() {
			return 0, net.ErrClosed
		}
		if h.reset {
			return 0, &net.OpError{Op: "read", Net: "fake", Err: syscall.ECONNRESET}
		}
		if len(h.buf) > 0 {
			n := copy(p, h.buf)
			h.buf = h.buf[n:]
			if len(h.buf) == 0 {
				h.buf = nil
			}
			h.read += int64(n)
			h.cond.Broadcast()
			return n, nil
		}
		if h.wclosed {
			return 0, io.EOF
		}
		if !h.rdl.IsZero() && !time.Now().Before(h.rdl) {
			return 0, &net.OpError{Op: "read", Net: "fake", Err: timeoutErr{}}
		}
		if len(p) == 0 {
			return 0, nil
		}
		h.cond.Wait()
	}
}

func (c *Conn) Write(p []byte) (int, error) {
	c.cmu.Lock()
	c.writes++
	nth := c.writes
	failN := c.FailWriteN
	c.cmu.Unlock()
	werr := c.WriteErr
	if werr == nil {
		werr = &net.OpError{Op: "write", Net: "fake", Err: syscall.EPIPE}
	}
	if failN != 0 && nth == failN {
		return 0, werr
	}
	h := c.out
	h.mu.Lock()
	defer h.mu.Unlock()
	n := 0
	for {
		if c.isClosed() {
			return n, net.ErrClosed
		}
		if h.rclosed || h.reset {
			return n, &net.OpError{Op: "write", Net: "fake", Err: syscall.EPIPE}
		}
		if c.FailWriteAfter >= 0 && h.total >= c.FailWriteAfter {
			return n, werr
		}
		if len(p) == 0 {
			return n, nil
		}
		space := h.cap - len(h.buf)
		if c.FailWriteAfter >= 0 && int64(space) > c.FailWriteAfter-h.total {
			space = int(c.FailWriteAfter - h.total)
		}
		if space > 0 {
			k := min(space, len(p))
			h.buf = append(h.buf, p[:k]...)
			if h.keepLog {
				h.log = append(h.log, p[:k]...)
			}
			h.total += int64(k)
			p = p[k:]
			n += k
			h.cond.Broadcast()
			continue
		}
		if !h.wdl.IsZero() && !time.Now().Before(h.wdl) {
			return n, &net.OpError{Op: "write", Net: "fake", Err: timeoutErr{}}
		}
		h.cond.Wait()
	}
}

func (c *Conn) isClosed() bool {
	c.cmu.Lock()
	defer c.cmu.Unlock()
	return c.closed
}

// Close closes this end: the peer reads what is buffered and then EOF; the peer's writes fail.
func (c *Conn) Close() error {
	c.cmu.Lock()
	if c.closed {
		c.cmu.Unlock()
		return nil
	}
	c.closed = true
	c.cmu.Unlock()
	c.out.mu.Lock()
	c.out.wclosed = true
	c.out.cond.Broadcast()
	c.out.mu.Unlock()
	c.in.mu.Lock()
	c.in.rclosed = true
	c.in.buf = nil
	c.in.cond.Broadcast()
	c.in.mu.Unlock()
	return nil
}

// CloseWrite half-closes: the peer sees EOF after draining, this end can still read.
func (c *Conn) CloseWrite() error {
	c.out.mu.Lock()
	c.out.wclosed = true
	c.out.cond.Broadcast()
	c.out.mu.Unlock()
	return nil
}

// Reset is an abortive close (RST): the peer's pending and future reads fail at once, buffered data is lost.
func (c *Conn) Reset() {
	c.cmu.Lock()
	c.closed = true
	c.cmu.Unlock()
	for _, h := range []*half{c.out, c.in} {
		h.mu.Lock()
		h.reset = true
		h.buf = nil
		h.cond.Broadcast()
		h.mu.Unlock()
	}
}

func (c *Conn) LocalAddr() net.Addr  { return addr("fake-" + c.name) }
func (c *Conn) RemoteAddr() net.Addr { return addr("fake-peer-of-" + c.name) }

func (c *Conn) SetDeadline(t time.Time) error {
	c.SetReadDeadline(t)
	return c.SetWriteDeadline(t)
}

func setDL(h *half, dl *time.Time, tm **time.Timer, t time.Time) {
	h.mu.Lock()
	defer h.mu.Unlock()
	*dl = t
	if *tm != nil {
		(*tm).Stop()
		*tm = nil
	}
	if !t.IsZero() {
		d := time.Until(t)
		if d < 0 {
			d = 0
		}
		*tm = time.AfterFunc(d, func() {
			h.mu.Lock()
			h.cond.Broadcast()
			h.mu.Unlock()
		})
	}
	h.cond.Broadcast()
}

func (c *Conn) SetReadDeadline(t time.Time) error {
	if c.isClosed() {
		return net.ErrClosed
	}
	setDL(c.in, &c.in.rdl, &c.in.rtimer, t)
	return nil
}

func (c *Conn) SetWriteDeadline(t time.Time) error {
	if c.isClosed() {
		return net.ErrClosed
	}
	setDL(c.out, &c.out.wdl, &c.out.wtimer, t)
	return nil
}

var _ net.Conn = (*Conn)(nil)
var _ = errors.New
