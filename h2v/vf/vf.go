package vf

import (
	"encoding/json"
	"fmt"
	"hash/fnv"
	"math/rand"
	"os"
	"runtime/debug"
	"sort"
	"strconv"
	"strings"
	"sync"
	"testing"
	"time"
)

// Violation is one monitor firing on one case.
type Violation struct {
	Rule     string   `json:"rule"`
	Case     string   `json:"case"`
	Detail   string   `json:"detail"`
	Triggers []string `json:"triggers,omitempty"`
	Replay   any      `json:"replay,omitempty"`
	// Tainted: a bubble of an earlier case in this worker process had been abandoned by the real-time watchdog when this
	// was reported; its goroutines go on running and share the process' pools with later cases. The driver confirms such a
	// report in a fresh process before it believes it.
	Tainted bool `json:"tainted,omitempty"`
}

// Finding is an entry of /verif/known_findings.json.
type Finding struct {
	ID       string `json:"id"`
	Property string `json:"property"`
	Rule     string `json:"rule"`
	Trigger  string `json:"trigger"`
	What     string `json:"what"`
	Status   string `json:"status"` // open | fixed
	Commit   string `json:"commit,omitempty"`
	Witness  string `json:"witness,omitempty"`
}

// Result is what one worker shard reports to the driver.
type Result struct {
	Property       string              `json:"property"`
	Seed           int64               `json:"seed"`
	Tier           string              `json:"tier"`
	Shard          int                 `json:"shard"`
	NShards        int                 `json:"nshards"`
	Evaluations    int64               `json:"evaluations"`
	Nontrivial     int64               `json:"nontrivial"`
	Shapes         []uint64            `json:"shapes"`
	ShapesOverflow bool                `json:"shapes_overflow"`
	Samples        []any               `json:"samples"`
	Violations     []Violation         `json:"violations"`
	ViolationsN    int                 `json:"violations_n"`
	Known          map[string]int      `json:"known"`
	Inconclusive   map[string]int      `json:"inconclusive"`
	Counters       map[string]int64    `json:"counters"`
	Sets           map[string][]string `json:"sets"`
	Exhaustive     []string            `json:"exhaustive,omitempty"`
	Rule           string              `json:"rule"`
	Assumptions    []string            `json:"assumptions,omitempty"`
	Done           bool                `json:"done"`
	WallS          float64             `json:"wall_s"`
}

// Run is the per-shard handle monitors report to. Safe for concurrent use.
type Run struct {
	T        *testing.T
	ID       string
	Seed     int64
	Tier     string
	Shard    int
	NShards  int
	Only     string // replay: only this case id
	Root     string
	mu       sync.Mutex
	res      Result
	shapes   map[uint64]struct{}
	sets     map[string]map[string]struct{}
	findings []Finding
	tainted  bool // an abandoned bubble of an earlier case is still running in this process
	start    time.Time
	out      string
	cur      *os.File
}

const maxShapes = 200000
const maxViolations = 25

func envInt(k string, d int64) int64 {
	if v := os.Getenv(k); v != "" {
		if n, err := strconv.ParseInt(v, 10, 64); err == nil {
			return n
		}
	}
	return d
}

// Begin starts a shard for property id. Tests skip themselves when not driven.
func Begin(t *testing.T, id string) *Run {
	r := &Run{T: t, ID: id, start: time.Now()}
	r.Seed = envInt("VERIF_SEED", 1)
	r.Tier = os.Getenv("VERIF_TIER")
	if r.Tier != "thorough" {
		r.Tier = "quick"
	}
	r.Shard = int(envInt("VERIF_SHARD", 0))
	r.NShards = int(envInt("VERIF_NSHARDS", 1))
	r.Only = os.Getenv("VERIF_ONLY_CASE")
	r.Root = os.Getenv("VERIF_ROOT")
	if r.Root == "" {
		r.Root = "/verif"
	}
	r.out = os.Getenv("VERIF_OUT")
	r.shapes = map[uint64]struct{}{}
	r.sets = map[string]map[string]struct{}{}
	r.res = Result{Property: id, Seed: r.Seed, Tier: r.Tier, Shard: r.Shard, NShards: r.NShards,
		Known: map[string]int{}, Inconclusive: map[string]int{}, Counters: map[string]int64{}}
	if b, err := os.ReadFile(r.Root + "/known_findings.json"); err == nil {
		var f struct {
			Findings []Finding `json:"findings"`
		}
		if err := json.Unmarshal(b, &f); err != nil {
			t.Fatalf("known_findings.json: %v", err)
		}
		r.findings = f.Findings
	}
	if p := os.Getenv("VERIF_PROGRESS"); p != "" {
		r.cur, _ = os.OpenFile(p, os.O_CREATE|os.O_WRONLY|os.O_TRUNC, 0o644)
	}
	return r
}

// Describe sets the generation/non-triviality rule and the assumptions for the evidence file.
func (r *Run) Describe(rule string, assumptions ...string) {
	r.mu.Lock()
	r.res.Rule = rule
	r.res.Assumptions = assumptions
	r.mu.Unlock()
}

// Thorough reports whether the thorough tier was requested.
func (r *Run) Thorough() bool { return r.Tier == "thorough" }

// Pick returns q for quick and t for thorough.
func (r *Run) Pick(q, t int) int {
	if r.Thorough() {
		return t
	}
	return q
}

// Want says whether case number i with id caseID belongs to this shard (and to the replay filter).
func (r *Run) Want(i int, caseID string) bool {
	if r.Only != "" {
		return caseID == r.Only
	}
	return i%r.NShards == r.Shard
}

// Rand returns the PRNG of a case: a function of (seed, property, case id) only.
func (r *Run) Rand(caseID string) *rand.Rand {
	h := fnv.New64a()
	fmt.Fprintf(h, "%d/%s/%s", r.Seed, r.ID, caseID)
	return rand.New(rand.NewSource(int64(h.Sum64())))
}

// Progress records the case about to run so a crash is attributable.
func (r *Run) Progress(caseID string, extra string) {
	if r.cur == nil {
		return
	}
	r.mu.Lock()
	r.cur.Truncate(0)
	r.cur.WriteAt([]byte(caseID+"\n"+extra), 0)
	r.mu.Unlock()
}

// Eval counts one executed case; shape identifies its structural class.
func (r *Run) Eval(shape uint64, nontrivial bool) {
	r.mu.Lock()
	r.res.Evaluations++
	if nontrivial {
		r.res.Nontrivial++
		if _, ok := r.shapes[shape]; !ok {
			if len(r.shapes) < maxShapes {
				r.shapes[shape] = struct{}{}
			} else {
				r.res.ShapesOverflow = true
			}
		}
	}
	r.mu.Unlock()
}

// Inc bumps a named counter.
func (r *Run) Inc(key string, n int64) {
	r.mu.Lock()
	r.res.Counters[key] += n
	r.mu.Unlock()
}

// Max keeps the maximum of a named gauge.
func (r *Run) Max(key string, n int64) {
	r.mu.Lock()
	if n > r.res.Counters[key] {
		r.res.Counters[key] = n
	}
	r.mu.Unlock()
}

// Mark adds elem to a named set (distinct things observed).
func (r *Run) Mark(set, elem string) {
	r.mu.Lock()
	m := r.sets[set]
	if m == nil {
		m = map[string]struct{}{}
		r.sets[set] = m
	}
	if len(m) < 5000 {
		m[elem] = struct{}{}
	}
	r.mu.Unlock()
}

// Sample keeps a few cases written out.
func (r *Run) Sample(v any) {
	r.mu.Lock()
	if len(r.res.Samples) < 4 {
		r.res.Samples = append(r.res.Samples, v)
	}
	r.mu.Unlock()
}

// WantSample says whether another sample would be kept.
func (r *Run) WantSample() bool {
	r.mu.Lock()
	defer r.mu.Unlock()
	return len(r.res.Samples) < 4
}

// Exhaustive records that a finite sub-space was enumerated completely.
func (r *Run) Exhaustive(what string) {
	r.mu.Lock()
	r.res.Exhaustive = append(r.res.Exhaustive, what)
	r.mu.Unlock()
}

// Inconclusive counts a case that could not be judged.
func (r *Run) Inconclusive(reason string) {
	r.mu.Lock()
	r.res.Inconclusive[reason]++
	if strings.Contains(reason, "watchdog expired inside a bubble") {
		r.tainted = true
	}
	r.mu.Unlock()
}

// Fail reports a monitor firing. triggers are the names of the known-finding
// trigger predicates that hold for this case's *inputs*.
func (r *Run) Fail(rule, caseID, detail string, triggers []string, replay any) {
	if sk := os.Getenv("VERIF_DEBUG_SKIP"); sk != "" && strings.Contains(sk, rule) {
		return
	}
	r.mu.Lock()
	defer r.mu.Unlock()
	for _, f := range r.findings {
		if f.Status != "open" || f.Property != r.ID || f.Rule != rule {
			continue
		}
		for _, tr := range triggers {
			if tr == f.Trigger {
				r.res.Known[f.ID]++
				return
			}
		}
	}
	r.res.ViolationsN++
	if os.Getenv("VERIF_DEBUG") != "" && r.res.ViolationsN == 1 {
		b, _ := json.MarshalIndent(replay, "", " ")
		fmt.Printf("REPLAY %s\n", b)
	}
	if len(r.res.Violations) < maxViolations {
		if len(detail) > 4000 {
			detail = detail[:4000] + "…"
		}
		r.res.Violations = append(r.res.Violations, Violation{Rule: rule, Case: caseID, Detail: detail, Triggers: triggers, Replay: replay, Tainted: r.tainted})
	}
}

// Guard runs f and turns a panic into a violation of rule.
func (r *Run) Guard(rule, caseID string, triggers []string, replay any, f func()) {
	defer func() {
		if e := recover(); e != nil {
			st := string(debug.Stack())
			if i := strings.Index(st, "panic("); i > 0 {
				st = st[i:]
			}
			if len(st) > 1500 {
				st = st[:1500]
			}
			r.Fail(rule, caseID, fmt.Sprintf("panic: %v\n%s", e, st), triggers, replay)
		}
	}()
	f()
}

// End writes the shard result.
func (r *Run) End() {
	r.mu.Lock()
	defer r.mu.Unlock()
	for h := range r.shapes {
		r.res.Shapes = append(r.res.Shapes, h)
	}
	sort.Slice(r.res.Shapes, func(i, j int) bool { return r.res.Shapes[i] < r.res.Shapes[j] })
	r.res.Sets = map[string][]string{}
	for k, m := range r.sets {
		for e := range m {
			r.res.Sets[k] = append(r.res.Sets[k], e)
		}
		sort.Strings(r.res.Sets[k])
	}
	r.res.Done = true
	r.res.WallS = time.Since(r.start).Seconds()
	b, err := json.Marshal(&r.res)
	if err != nil {
		r.T.Fatalf("marshal result: %v", err)
	}
	if r.out == "" {
		r.T.Logf("evaluations=%d nontrivial=%d shapes=%d violations=%d known=%v inconclusive=%v counters=%v",
			r.res.Evaluations, r.res.Nontrivial, len(r.res.Shapes), r.res.ViolationsN, r.res.Known, r.res.Inconclusive, r.res.Counters)
		for _, v := range r.res.Violations {
			r.T.Logf("VIOLATION rule=%s case=%s triggers=%v: %s", v.Rule, v.Case, v.Triggers, v.Detail)
		}
		return
	}
	if err := os.WriteFile(r.out, b, 0o644); err != nil {
		r.T.Fatalf("write result: %v", err)
	}
}

// Hash is a helper for shape hashes.
func Hash(parts ...any) uint64 {
	h := fnv.New64a()
	for _, p := range parts {
		fmt.Fprintf(h, "%v|", p)
	}
	return h.Sum64()
}
