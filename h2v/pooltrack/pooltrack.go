// Package pooltrack is the online ownership monitor for the package's object
// pools (hook H1): per object a three-state machine unborn/held/free. The
// tracker keeps every object it has seen reachable, so an address is never
// reused for a different object while it is tracked.
package pooltrack

import (
	"fmt"
	"reflect"
	"runtime"
	"strings"
	"sync"

	http2 "github.com/dgrr/http2"
)

type state uint8

const (
	unborn state = iota
	held
	free
)

type entry struct {
	obj   any
	st    state
	kind  string
	stack string // stack of the last transition
}

type Event struct {
	What  string // "double-release" | "acquired-while-held"
	Kind  string
	Obj   string
	Prev  string
	Stack string
}

type Tracker struct {
	NoPoison bool  // do not overwrite released objects
	Poisoned int64 // objects overwritten on release
	mu       sync.Mutex
	objs     map[uintptr]*entry
	events   []Event
	Acquires map[string]int64
	Releases map[string]int64
	Stacks   bool
	// OnRelease, if set, is called (outside the lock) for each release with kind and object.
	OnRelease func(kind string, obj any)
	OnAcquire func(kind string, obj any)
}

func New() *Tracker {
	return &Tracker{objs: map[uintptr]*entry{}, Acquires: map[string]int64{}, Releases: map[string]int64{}, Stacks: true}
}

func ptrOf(obj any) uintptr {
	v := reflect.ValueOf(obj)
	if v.Kind() == reflect.Pointer {
		return v.Pointer()
	}
	return 0
}

func shortStack() string {
	var pcs [24]uintptr
	n := runtime.Callers(4, pcs[:])
	fr := runtime.CallersFrames(pcs[:n])
	var sb strings.Builder
	for {
		f, more := fr.Next()
		if strings.Contains(f.Function, "dgrr/http2") || strings.Contains(f.Function, "h2v/") {
			fn := f.Function
			if i := strings.LastIndex(fn, "/"); i >= 0 {
				fn = fn[i+1:]
			}
			fmt.Fprintf(&sb, "%s:%d < ", fn, f.Line)
		}
		if !more {
			break
		}
	}
	return sb.String()
}

func (t *Tracker) hook(kind string, obj any, acquire bool) bool {
	p := ptrOf(obj)
	if p == 0 {
		return false
	}
	if kind == "frame" {
		kind = fmt.Sprintf("frame:%T", obj)
	}
	var st string
	if t.Stacks {
		st = shortStack()
	}
	t.mu.Lock()
	e := t.objs[p]
	if e == nil {
		e = &entry{obj: obj, kind: kind}
		t.objs[p] = e
	}
	if acquire {
		t.Acquires[kind]++
		if e.st == held {
			t.events = append(t.events, Event{What: "acquired-while-held", Kind: kind, Obj: fmt.Sprintf("%#x", p), Prev: e.stack, Stack: st})
		}
		e.st = held
	} else {
		t.Releases[kind]++
		if e.st == free {
			t.events = append(t.events, Event{What: "double-release", Kind: kind, Obj: fmt.Sprintf("%#x", p), Prev: e.stack, Stack: st})
		} else if !t.NoPoison {
			// the releasing owner is done with the object: scribble over the buffers it owns, so that anybody who
			// still holds a slice into them reads garbage now (and, under -race, is reported by the detector)
			http2.VerifPoison(obj)
			t.Poisoned++
		}
		e.st = free
	}
	e.stack = st
	onR, onA := t.OnRelease, t.OnAcquire
	t.mu.Unlock()
	if acquire && onA != nil {
		onA(kind, obj)
	}
	if !acquire && onR != nil {
		onR(kind, obj)
	}
	return false
}

// Install makes t the process-wide pool observer.
func (t *Tracker) Install() { http2.VerifSetPoolHook(t.hook) }

// Uninstall removes the observer.
func Uninstall() { http2.VerifSetPoolHook(nil) }

// Drain returns and clears the ownership violations seen so far.
func (t *Tracker) Drain() []Event {
	t.mu.Lock()
	defer t.mu.Unlock()
	ev := t.events
	t.events = nil
	return ev
}

// Counts returns total acquire/release events and distinct objects.
func (t *Tracker) Counts() (acq, rel int64, objs int) {
	t.mu.Lock()
	defer t.mu.Unlock()
	for _, v := range t.Acquires {
		acq += v
	}
	for _, v := range t.Releases {
		rel += v
	}
	return acq, rel, len(t.objs)
}

// Reset forgets all objects (use between independent batches to bound memory).
func (t *Tracker) Reset() {
	t.mu.Lock()
	t.objs = map[uintptr]*entry{}
	t.mu.Unlock()
}
