package workers

import (
	"h2v/hpackref"
	"fmt"
	"math/rand"
	"strings"
	"testing"
	"time"

	"h2v/rt"
	"h2v/vf"
	"h2v/wire"
)

// clientWindows tracks what the SUT client has granted the scripted server (so the script stays a conforming sender).
type clientWindows struct {
	conn   int64
	init   int64
	stream map[uint32]int64
	seen   int
}

func newClientWindows(e *rt.ClientEnv) *clientWindows {
	w := &clientWindows{conn: 65535, init: 65535, stream: map[uint32]int64{}}
	if v, ok := e.ClientSettings[4]; ok {
		w.init = int64(v)
	}
	return w
}

func (w *clientWindows) absorb(fs []rt.Frame) {
	for _, f := range fs[w.seen:] {
		if f.Type == wire.TWindowUpdate {
			if f.Stream == 0 {
				w.conn += int64(f.Incr)
			} else {
				w.stream[f.Stream] += int64(f.Incr)
			}
		}
	}
	w.seen = len(fs)
}

func (w *clientWindows) avail(stream uint32) int64 {
	s := w.init + w.stream[stream]
	if w.conn < s {
		return w.conn
	}
	return s
}

func (w *clientWindows) spend(stream uint32, n int64) {
	w.conn -= n
	w.stream[stream] -= n
}

func TestC02(t *testing.T) {
	r := vf.Begin(t, "C02")
	defer r.End()
	defer perturbReport(r)
	r.Describe("PRNG scenarios on one client connection (NewConn/Handshake/Write) in a synctest bubble against a scripted x/net-based server: 1-16 (thorough up to 32) concurrent callers with 7 methods, custom/mixed-case/repeated fields, connection-specific fields that must be dropped, bodies none/buffered/streamed (declared or unknown length, 1 B..40 KiB reads) up to 300 KiB; "+
		"the server opens its windows in PRNG increments so uploads interleave, then answers in PRNG order with responses encoded by the harness' HPACK encoder (random representations, dynamic-table reuse across responses), header blocks cut at arbitrary bytes into HEADERS+CONTINUATION, padding, DATA chunkings with empty/padded frames, optional trailers, frames of different streams interleaved, while honouring the credit the client returns. "+
		"Oracle at the server: every request arrives exactly as built (pseudo-headers, lower-cased fields in order, no connection-specific field, body bytes, one END_STREAM) on odd strictly increasing stream ids; at each caller: exactly one outcome, nil error, and exactly the status/fields/trailers/body scripted for the stream its tag arrived on. "+
		"Non-trivial = at least 2 callers or a split/padded response; distinct = distinct trait vectors.",
		"x/net Framer/HPACK decoder read the client's frames correctly", "fasthttp accessors (StatusCode, Header.PeekAll, Body) are value-preserving")
	n := r.Pick(300, 4000)
	for i := 0; i < n; i++ {
		id := fmt.Sprintf("c%d", i)
		if !r.Want(i, id) {
			continue
		}
		r.Progress(id, "")
		switch vf.Hash("c02-family", id) % 25 {
		case 0:
			c02IDSpace(r, t, id, r.Rand(id))
			continue
		case 1, 2:
			c02Cancelled(r, t, id, r.Rand(id))
			continue
		}
		c02Scenario(r, t, id, r.Rand(id))
	}
}

// c02IDSpace: a connection near the end of its stream id space (the hook VerifSetNextStreamID stands in for the two
// thousand million requests before it). The requests that still fit get fresh odd increasing ids up to 2^31-1 and are
// answered; the ones that do not fit are failed and never reach the wire - no id above 2^31-1, none reused, none even.
func c02IDSpace(r *vf.Run, t *testing.T, id string, rng *rand.Rand) {
	fit := rng.Intn(4)
	k := fit + 1 + rng.Intn(3)
	replay := map[string]any{"family": "stream-id-space", "requests": k, "ids_left": fit}
	failed := false
	fail := func(rule, detail string) {
		if !failed {
			r.Fail("C02."+rule, id, detail, nil, replay)
		}
		failed = true
	}
	res := rt.RunBubble(t, id, 60*time.Second, func() {
		e := rt.NewClientEnv(id, rt.ClientOpts{PeerSettings: []wire.Setting{{ID: 4, Val: 1 << 20}}})
		if e.HandshakeErr != nil {
			fail("handshake", e.HandshakeErr.Error())
			return
		}
		first := uint32(1<<31-1) - 2*uint32(fit) + 2 // fit == 0: already past the last id
		e.C.VerifSetNextStreamID(first)
		reqs := make([]*cliReq, k)
		calls := make([]*rt.Call, k)
		for i := range reqs {
			reqs[i] = genCliReq(rng, id, i, 2000, 2000)
			reqs[i].SplitSeed, reqs[i].TrailSplit = nil, nil
			calls[i] = e.Do(reqs[i].Tag, reqs[i].build)
			rt.Wait()
		}
		seen := e.RequestsSeen()
		var last uint32
		for _, s := range seen {
			if s.Stream%2 == 0 || s.Stream > 1<<31-1 || s.Stream <= last || s.Stream < first {
				fail("stream-id", fmt.Sprintf("request arrived on stream %d (previous %d, first id of this connection %d): ids are odd, strictly increasing and at most 2^31-1", s.Stream, last, first))
			}
			last = s.Stream
		}
		if len(seen) != fit {
			fail("stream-id", fmt.Sprintf("%d stream ids were left (from %d), %d requests were made, %d reached the server", fit, first, k, len(seen)))
		}
		for _, s := range seen {
			tag, _ := s.Get("x-vtag")
			for _, q := range reqs {
				if q.Tag == tag {
					if d := q.checkArrived(s); d != "" {
						fail("request-mismatch", fmt.Sprintf("request %s (stream %d): %s", tag, s.Stream, d))
					}
					out := q.respHeaderBytes(e.P, s.Stream)
					for _, f := range q.respData(s.Stream) {
						out = append(out, f...)
					}
					if len(q.RespTrail) > 0 {
						out = append(out, q.respTrailerBytes(e.P, s.Stream)...)
					}
					e.P.Write(out)
				}
			}
		}
		rt.Wait()
		for i, q := range reqs {
			done, err, _ := calls[i].Outcome()
			arrived := false
			for _, s := range seen {
				tag, _ := s.Get("x-vtag")
				arrived = arrived || tag == q.Tag
			}
			switch {
			case arrived:
				if d := q.checkDelivered(calls[i]); d != "" {
					fail("response-mismatch", fmt.Sprintf("caller of %s: %s", q.Tag, d))
				}
			case !done:
				fail("request-stranded", fmt.Sprintf("request %s found no stream id left and is neither sent nor failed", q.Tag))
			case err == nil:
				fail("response-mismatch", fmt.Sprintf("request %s never reached the server (no stream id left) and its caller was told it succeeded", q.Tag))
			}
		}
		r.Inc("requests_at_the_end_of_the_id_space", int64(k))
		e.Finish()
	})
	c01Outcome(r, id, res, nil, replay, "C02")
	r.Eval(vf.Hash("idspace", fit, k), true)
}

func c02Scenario(r *vf.Run, t *testing.T, id string, rng *rand.Rand) {
	k := 1 + rng.Intn(r.Pick(16, 32))
	if rng.Intn(2) == 0 {
		k = 1 + rng.Intn(6)
	}
	reqs := make([]*cliReq, k)
	traits := []string{fmt.Sprintf("k%d", min(k, 9))}
	total := 0
	for i := range reqs {
		reqs[i] = genCliReq(rng, id, i, r.Pick(100000, 300000), r.Pick(60000, 200000))
		traits = append(traits, strings.Join(reqs[i].Traits, "+"))
		total += len(reqs[i].RespBody)
	}
	serverWindow := []uint32{65535, 65535, 0, 1000, 1 << 20}[rng.Intn(5)]
	stagger := rng.Intn(2) == 0
	var triggers []string
	for _, q := range reqs {
		if len(q.SplitSeed) > 0 || len(q.TrailSplit) > 0 {
			triggers = append(triggers, "resp.headerBlockContinued")
		}
	}
	replay := map[string]any{"callers": k, "server_initial_window": serverWindow, "requests": describeCli(reqs)}
	failed := false
	fail := func(rule, detail string) {
		if !failed {
			r.Fail("C02."+rule, id, detail, triggers, replay)
		}
		failed = true
	}
	res := rt.RunBubble(t, id, 90*time.Second, func() {
		e := rt.NewClientEnv(id, rt.ClientOpts{PeerSettings: []wire.Setting{{ID: 4, Val: serverWindow}, {ID: 3, Val: 1000}}})
		if e.HandshakeErr != nil {
			fail("handshake", e.HandshakeErr.Error())
			return
		}
		calls := make([]*rt.Call, k)
		for i, q := range reqs {
			calls[i] = e.Do(q.Tag, q.build)
			if stagger && rng.Intn(2) == 0 {
				rt.Wait()
			}
		}
		rt.Wait()
		// A conforming server may answer before it has read the whole request (RFC 7540 8.1). One upload that is
		// stuck behind the server's window is answered now; its caller must get exactly that response, and the rest
		// of the connection must not notice.
		cw := newClientWindows(e)
		early := -1
		if serverWindow <= 1000 && rng.Intn(3) == 0 {
			for i, q := range reqs {
				if len(q.Body) > int(serverWindow) && q.BodyMode != 0 && len(q.RespBody) <= 16000 {
					early = i
					break
				}
			}
		}
		if early >= 0 {
			q := reqs[early]
			var sid uint32
			for _, s := range e.RequestsSeen() {
				if tag, _ := s.Get("x-vtag"); tag == q.Tag {
					sid = s.Stream
				}
			}
			if sid == 0 {
				early = -1
			} else {
				triggers = append(triggers, "resp.beforeRequestBodyComplete")
				out := q.respHeaderBytes(e.P, sid)
				for _, fb := range q.respData(sid) {
					cw.spend(sid, int64(len(fb)-9))
					out = append(out, fb...)
				}
				if len(q.RespTrail) > 0 {
					out = append(out, q.respTrailerBytes(e.P, sid)...)
				}
				e.P.Write(out)
				rt.Wait()
				if d := q.checkDelivered(calls[early]); d != "" {
					fail("response-mismatch", fmt.Sprintf("caller of %s (stream %d) was answered completely while %d of its %d body bytes (mode %d) were still waiting for the server's window of %d: %s", q.Tag, sid, len(q.Body)-int(serverWindow), len(q.Body), q.BodyMode, serverWindow, d))
				}
				r.Inc("responses_delivered_before_the_request_body_was_sent", 1)
				if rng.Intn(2) == 0 {
					e.P.Write(rt.RstStream(sid, 0)) // NO_ERROR: "stop sending the body"
					rt.Wait()
				}
			}
		}
		// upload phase: open the windows in PRNG increments until every body has arrived
		byTag := func() map[string]*rt.SeenRequest {
			m := map[string]*rt.SeenRequest{}
			for _, s := range e.RequestsSeen() {
				tag, _ := s.Get("x-vtag")
				m[tag] = s
			}
			return m
		}
		for iter := 0; iter < 600; iter++ {
			seen := byTag()
			var out []byte
			var connInc uint32
			for i, q := range reqs {
				s := seen[q.Tag]
				if s == nil || s.EndStream > 0 || len(q.Body) == 0 || i == early {
					continue
				}
				inc := uint32(1 + rng.Intn(60000))
				if rng.Intn(4) == 0 {
					inc = uint32(1 + rng.Intn(200))
				}
				out = append(out, rt.WindowUpdate(s.Stream, inc)...)
				connInc += inc
			}
			if len(out) == 0 {
				break
			}
			out = append(out, rt.WindowUpdate(0, connInc)...)
			e.P.Write(out)
			rt.Wait()
		}
		seen := byTag()
		streamOf := map[string]uint32{}
		var last uint32
		for _, s := range e.RequestsSeen() {
			if s.Stream%2 == 0 || s.Stream <= last {
				fail("stream-id", fmt.Sprintf("HEADERS arrived on stream %d after stream %d: ids must be odd and strictly increasing", s.Stream, last))
			}
			last = s.Stream
		}
		if len(e.RequestsSeen()) != k {
			fail("request-count", fmt.Sprintf("%d callers, %d request streams arrived", k, len(e.RequestsSeen())))
		}
		for i, q := range reqs {
			s := seen[q.Tag]
			if s == nil {
				fail("request-missing", fmt.Sprintf("request %s never arrived at the server", q.Tag))
				continue
			}
			streamOf[q.Tag] = s.Stream
			if i == early {
				continue // answered early: the rest of its body need not arrive
			}
			if d := q.checkArrived(s); d != "" {
				fail("request-mismatch", fmt.Sprintf("request %s (stream %d, body mode %d, %d bytes): %s", q.Tag, s.Stream, q.BodyMode, len(q.Body), d))
			}
		}
		if failed {
			e.Finish()
			return
		}
		// response phase
		data := make([][][]byte, k)
		type ru struct{ i, u int }
		var order []ru
		pos := make([]int, k)
		remaining := 0
		for i, q := range reqs {
			if i == early {
				continue
			}
			data[i] = q.respData(streamOf[q.Tag])
			remaining += 1 + len(data[i])
			if len(q.RespTrail) > 0 {
				remaining++
			}
		}
		for remaining > 0 {
			var cands []int
			for i, q := range reqs {
				tot := 1 + len(data[i])
				if len(q.RespTrail) > 0 {
					tot++
				}
				if pos[i] < tot && i != early {
					cands = append(cands, i)
				}
			}
			i := cands[rng.Intn(len(cands))]
			order = append(order, ru{i, pos[i]})
			pos[i]++
			remaining--
		}
		burst := 1 + rng.Intn(8)
		var out []byte
		flush := func() {
			if len(out) > 0 {
				e.P.Write(out)
				out = nil
				rt.Wait()
			}
		}
		for n, o := range order {
			q := reqs[o.i]
			sid := streamOf[q.Tag]
			switch {
			case o.u == 0:
				out = append(out, q.respHeaderBytes(e.P, sid)...)
			case o.u <= len(data[o.i]):
				fb := data[o.i][o.u-1]
				need := int64(len(fb) - 9)
				cw.absorb(e.P.Frames())
				if cw.avail(sid) < need {
					flush()
					cw.absorb(e.P.Frames())
					if cw.avail(sid) < need {
						fail("no-credit-for-response", fmt.Sprintf("the client has not returned enough credit to deliver %d more bytes of response %s (stream %d): available %d after %d frames", need, q.Tag, sid, cw.avail(sid), n))
						break
					}
				}
				cw.spend(sid, need)
				out = append(out, fb...)
			default:
				out = append(out, q.respTrailerBytes(e.P, sid)...)
			}
			if failed {
				break
			}
			if (n+1)%burst == 0 {
				flush()
			}
		}
		flush()
		if !failed {
			for i, q := range reqs {
				if d := q.checkDelivered(calls[i]); d != "" {
					fail("response-mismatch", fmt.Sprintf("caller of %s (stream %d; response: status %d, %d fields, %d trailers, body %d, header splits %v): %s", q.Tag, streamOf[q.Tag], q.Status, len(q.RespFields), len(q.RespTrail), len(q.RespBody), q.SplitSeed, d))
				}
			}
			for _, f := range e.P.Frames() {
				if early >= 0 && f.Type == wire.TRstStream && f.Stream == streamOf[reqs[early].Tag] {
					continue // giving up the rest of an upload whose answer has arrived is the client's right
				}
				if f.Type == wire.TGoAway || (f.Type == wire.TRstStream) {
					fail("error-frame", "the client sent "+f.String()+" to a conforming server")
				}
			}
		}
		r.Inc("requests", int64(k))
		e.Finish()
	})
	c01Outcome(r, id, res, triggers, replay, "C02")
	js := strings.Join(traits, ",")
	r.Eval(vf.Hash(traits, serverWindow), k >= 2 || strings.Contains(js, "rsplit") || strings.Contains(js, "pad"))
	if r.WantSample() {
		r.Sample(map[string]any{"case": id, "callers": k, "server_initial_window": serverWindow, "traits": traits})
	}
}

func describeCli(reqs []*cliReq) []map[string]any {
	var out []map[string]any
	for _, q := range reqs {
		out = append(out, map[string]any{"tag": q.Tag, "method": q.Method, "url": q.Scheme + "://" + q.Host + q.Path, "fields": q.Fields, "conn_specific": q.ConnSpec, "body_len": len(q.Body), "body_mode": q.BodyMode, "read_chunk": q.ReadChunk,
			"status": q.Status, "resp_fields": fmtFields(q.RespFields), "resp_trailers": fmtFields(q.RespTrail), "resp_body_len": len(q.RespBody), "splits": q.SplitSeed, "pad": q.PadLen, "chunks": q.Chunks, "pads": q.Pads})
	}
	return out
}

// c02Cancelled: some callers give their requests up (Cancel) while the responses are on their way; the server, which has
// not seen the RST_STREAM yet, answers everything. The header blocks of the responses nobody waits for still feed the
// connection's HPACK table: the responses of the other callers refer to entries those blocks inserted, and each of those
// callers gets exactly its own fields.
func c02Cancelled(r *vf.Run, t *testing.T, id string, rng *rand.Rand) {
	k := 4 + rng.Intn(5)
	reqs := make([]*cliReq, k)
	cancelled := map[int]bool{}
	for i := range reqs {
		q := genCliReq(rng, id, i, 0, 300)
		q.Method, q.Body, q.BodyMode = "GET", nil, 0
		q.Status, q.Interim, q.HeadCL, q.Prio = 200, 0, -1, false
		q.RespTrail, q.SplitSeed, q.TrailSplit, q.RespSizeUpd = nil, nil, nil, nil
		// a small set of shared (name, value) pairs: the first response that carries one inserts it, the later ones index it
		q.RespFields = []F{{Name: "x-rtag", Value: q.Tag}, {Name: "x-shared", Value: fmt.Sprintf("value-%d", rng.Intn(3))}, {Name: "x-owner", Value: fmt.Sprintf("owner-%d", i%3)}}
		q.Choices = []hpackref.Choice{{Rep: hpackref.RepIndexed, NameIndex: true}}
		reqs[i] = q
		if i > 0 && rng.Intn(2) == 0 {
			cancelled[i] = true
		}
	}
	replay := map[string]any{"family": "cancelled-callers", "requests": k, "cancelled": len(cancelled)}
	failed := false
	fail := func(rule, detail string) {
		if !failed {
			r.Fail("C02."+rule, id, detail, nil, replay)
		}
		failed = true
	}
	res := rt.RunBubble(t, id, 60*time.Second, func() {
		e := rt.NewClientEnv(id, rt.ClientOpts{PeerSettings: []wire.Setting{{ID: 4, Val: 1 << 20}}})
		if e.HandshakeErr != nil {
			fail("handshake", e.HandshakeErr.Error())
			return
		}
		calls := make([]*rt.Call, k)
		for i, q := range reqs {
			calls[i] = e.Do(q.Tag, q.build)
			rt.Wait()
		}
		streamOf := map[string]uint32{}
		for _, s := range e.RequestsSeen() {
			tag, _ := s.Get("x-vtag")
			streamOf[tag] = s.Stream
		}
		if len(streamOf) != k {
			fail("request-missing", fmt.Sprintf("%d requests issued, %d arrived", k, len(streamOf)))
			e.Finish()
			return
		}
		for i := range reqs {
			if cancelled[i] {
				e.C.Cancel(calls[i].Ctx)
			}
		}
		rt.Wait()
		// the answers, cancelled requests first or mixed in: encoded in wire order, so that later blocks index what earlier
		// ones inserted
		order := rng.Perm(k)
		if rng.Intn(2) == 0 {
			var first, rest []int
			for _, i := range order {
				if cancelled[i] {
					first = append(first, i)
				} else {
					rest = append(rest, i)
				}
			}
			order = append(first, rest...)
		}
		for _, i := range order {
			q := reqs[i]
			sid := streamOf[q.Tag]
			out := q.respHeaderBytes(e.P, sid)
			for _, f := range q.respData(sid) {
				out = append(out, f...)
			}
			e.P.Write(out)
			if rng.Intn(2) == 0 {
				rt.Wait()
			}
		}
		rt.Wait()
		for i, q := range reqs {
			if cancelled[i] {
				continue
			}
			if d := q.checkDelivered(calls[i]); d != "" {
				fail("response-mismatch", fmt.Sprintf("caller of %s (stream %d; %d other requests had been cancelled by their callers and were answered all the same): %s", q.Tag, streamOf[q.Tag], len(cancelled), d))
			}
		}
		if le := e.C.LastErr(); le != nil && !failed {
			fail("connection-lost", fmt.Sprintf("the connection ended with %v after answers to requests their callers had cancelled", le))
		}
		r.Inc("answers_to_cancelled_requests", int64(len(cancelled)))
		e.Finish()
	})
	c01Outcome(r, id, res, nil, replay, "C02")
	r.Eval(vf.Hash("cancelled", k, len(cancelled)), true)
}
