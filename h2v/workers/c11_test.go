package workers

import (
	"fmt"
	"math/rand"
	"sort"
	"testing"
	"time"

	http2 "github.com/dgrr/http2"
	"github.com/valyala/fasthttp"

	"h2v/rt"
	"h2v/vf"
	"h2v/wire"
)

func TestC11(t *testing.T) {
	r := vf.Begin(t, "C11")
	defer r.End()
	defer perturbReport(r)
	r.Describe("PRNG scenarios in synctest bubbles. Connection level (NewConn/Write): 1-8 requests in flight (with and without bodies), GOAWAY(last-stream-id in {0, below, between, top, 2^31-1}, code in {NO_ERROR, PROTOCOL_ERROR, ENHANCE_YOUR_CALM}) placed before, among or after the partial responses, immediately followed by PING; the server then answers a PRNG subset of the streams <= last-stream-id in PRNG order (headers and data split across steps), "+
		"stays or disconnects at a PRNG point, while new requests are issued concurrently. RoundTrip level (HostClient + ConfigureClient over TLS on the in-memory transport, scripted TLS server counting HEADERS per tag over every connection the client dials): GOAWAY / REFUSED_STREAM / RST_STREAM / connection loss at PRNG points. "+
		"Monitors: (1) a tag's HEADERS reach a server at most once unless every earlier arrival was disclaimed (stream above a GOAWAY's last-stream-id, or REFUSED_STREAM); (2) no HEADERS arrive on a connection after the ACK of the PING that followed its GOAWAY; (3) a request above last-stream-id is never reported successful and is resolved by the next quiescent point, not at the timeout; "+
		"(4) a request at or below last-stream-id that the server answers completely yields exactly that response; (5) RoundTrip says retry=true, or re-sends, only for disclaimed requests. Distinct = distinct (level, n, last-stream-id class, code, placement, answer subset, ending).",
		"virtual time: 'promptly' means at the quiescent point right after the GOAWAY was delivered", "crypto/tls over the in-memory transport for the RoundTrip level")
	// RoundTrip pools its per-request Ctx objects, each with a timer and a channel that belong to the bubble they were
	// created in; a pooled Ctx must not travel into a later bubble, so the pool hook withholds them (always legal for a sync.Pool)
	http2.VerifSetPoolHook(func(kind string, obj any, acquire bool) bool {
		poisonHook(kind, obj, acquire)
		return kind == "clientctx" && !acquire
	})
	defer http2.VerifSetPoolHook(poisonHook)
	n := r.Pick(400, 25000)
	for i := 0; i < n; i++ {
		id := fmt.Sprintf("y%d", i)
		if !r.Want(i, id) {
			continue
		}
		r.Progress(id, "")
		rng := r.Rand(id)
		if i%3 == 2 {
			c11RoundTrip(r, t, id, rng)
		} else {
			c11Conn(r, t, id, rng)
		}
	}
}

func c11Conn(r *vf.Run, t *testing.T, id string, rng *rand.Rand) {
	n := 1 + rng.Intn(8)
	lastClass := rng.Intn(5) // 0: zero, 1: below all, 2: between, 3: top, 4: 2^31-1
	code := []uint32{0, 1, 11}[rng.Intn(3)]
	placement := rng.Intn(3) // 0 before any response, 1 after some response headers, 2 after some complete responses
	ending := rng.Intn(3)    // 0 stays, 1 EOF, 2 RST
	lateReqs := rng.Intn(3)
	blockedUploads := rng.Intn(3) == 0
	raceReqs := []int{0, 1, 1, 2, 3}[rng.Intn(5)]
	graceful := []int{0, 0, 1, 2}[rng.Intn(4)] // 1, 2: the GOAWAY is the second of a graceful shutdown (2: the client has processed the first)
	var triggers []string
	replay := map[string]any{"level": "conn", "requests_racing_the_goaway": raceReqs, "graceful_first_goaway": graceful, "blocked_uploads": blockedUploads, "in_flight": n, "last_class": lastClass, "code": code, "placement": placement, "ending": ending, "late_requests": lateReqs}
	failed := false
	fail := func(rule, detail string) {
		if !failed {
			r.Fail("C11."+rule, id, detail, triggers, replay)
		}
		failed = true
	}
	res := rt.RunBubble(t, id, 60*time.Second, func() {
		// in a third of the cases the server's window is (nearly) shut, so that uploads are still waiting for window,
		// streamed bodies unread, when the GOAWAY and the answers arrive
		srvWindow := uint32(1 << 20)
		maxBody := 2000
		if blockedUploads {
			srvWindow = []uint32{0, 1000}[rng.Intn(2)]
			maxBody = 30000
		}
		e := rt.NewClientEnv(id, rt.ClientOpts{PeerSettings: []wire.Setting{{ID: 4, Val: srvWindow}}})
		if e.HandshakeErr != nil {
			fail("handshake", e.HandshakeErr.Error())
			return
		}
		e.P.Write(rt.WindowUpdate(0, 1<<24))
		reqs := make([]*cliReq, n)
		calls := make([]*rt.Call, n)
		for i := range reqs {
			reqs[i] = genCliReq(rng, id, i, maxBody, 3000)
			if blockedUploads && rng.Intn(2) == 0 {
				q := reqs[i]
				q.Method = "POST"
				q.Body = make([]byte, 1500+rng.Intn(maxBody))
				rng.Read(q.Body)
				q.BodyMode = 1 + rng.Intn(3)
				q.ReadChunk = []int{0, 100, 5000}[rng.Intn(3)]
			}
			reqs[i].SplitSeed, reqs[i].TrailSplit = nil, nil
			calls[i] = e.Do(reqs[i].Tag, reqs[i].build)
			rt.Wait()
		}
		streamOf := map[string]uint32{}
		var ids []uint32
		for _, s := range e.RequestsSeen() {
			tag, _ := s.Get("x-vtag")
			streamOf[tag] = s.Stream
			ids = append(ids, s.Stream)
		}
		if len(ids) != n {
			fail("request-missing", fmt.Sprintf("%d requests issued, %d arrived", n, len(ids)))
			e.Finish()
			return
		}
		sort.Slice(ids, func(i, j int) bool { return ids[i] < ids[j] })
		var last uint32
		switch lastClass {
		case 0:
			last = 0
		case 1:
			last = 0
			if ids[0] > 1 {
				last = ids[0] - 2
			}
		case 2:
			last = ids[rng.Intn(len(ids))]
		case 3:
			last = ids[len(ids)-1]
		case 4:
			last = 1<<31 - 1
		}
		replay["last_stream_id"] = last
		replay["stream_ids"] = ids
		// what the server sends before the GOAWAY
		headersSent := map[uint32]bool{}
		completed := map[uint32]bool{}
		sendHeaders := func(q *cliReq) {
			sid := streamOf[q.Tag]
			if !headersSent[sid] {
				headersSent[sid] = true
				e.P.Write(q.respHeaderBytes(e.P, sid))
				if len(q.RespBody) == 0 && len(q.RespTrail) == 0 {
					completed[sid] = true
				}
			}
		}
		sendRest := func(q *cliReq) {
			sid := streamOf[q.Tag]
			sendHeaders(q)
			if completed[sid] {
				return
			}
			var out []byte
			for _, f := range q.respData(sid) {
				out = append(out, f...)
			}
			if len(q.RespTrail) > 0 {
				out = append(out, q.respTrailerBytes(e.P, sid)...)
			}
			e.P.Write(out)
			completed[sid] = true
		}
		order := rng.Perm(n)
		switch placement {
		case 1:
			for _, i := range order[:rng.Intn(n+1)] {
				sendHeaders(reqs[i])
			}
		case 2:
			for _, i := range order[:rng.Intn(n+1)] {
				sendRest(reqs[i])
			}
		}
		rt.Wait()
		// GOAWAY, then PING: whatever the client had started to write is ordered before the PING's ACK
		goawayAt := e.P.NFrames()
		// requests handed to the connection at the very moment the GOAWAY arrives (no barrier in between): whichever of the
		// write loop (about to open a stream) and the read loop (about to process the GOAWAY) goes first, once both have
		// finished a stream above last-stream-id cannot be left waiting
		var racing []*cliReq
		var racingCalls []*rt.Call
		for i := 0; i < raceReqs; i++ {
			q := genCliReq(rng, id, 200+i, 100, 100)
			racing = append(racing, q)
			racingCalls = append(racingCalls, e.Do(q.Tag, q.build))
		}
		if graceful > 0 {
			// RFC 7540 6.8: a server shutting down gracefully first says GOAWAY(2^31-1, NO_ERROR) and only later names the real
			// last stream; it is the later frame that decides which requests are disclaimed
			e.P.Write(rt.GoAway(1<<31-1, 0, "shutting down"))
			if graceful == 2 {
				rt.Wait()
			}
		}
		e.P.Write(append(rt.GoAway(last, code, "going away"), rt.Ping(false, "afterGA!")...))
		rt.Wait()
		gaTime := time.Now()
		if raceReqs > 0 {
			arrived := map[string]uint32{}
			for _, s := range e.RequestsSeen() {
				tag, _ := s.Get("x-vtag")
				arrived[tag] = s.Stream
			}
			for i, q := range racing {
				sid := arrived[q.Tag]
				done, err, _ := racingCalls[i].Outcome()
				switch {
				case sid == 0:
					r.Inc("racing_requests_never_sent", 1)
					if !done {
						fail("racing-request-stranded", fmt.Sprintf("request %s was handed to the connection while GOAWAY(last-stream-id %d) arrived; it never reached the wire and is still unresolved with the client quiescent", q.Tag, last))
					}
				case sid > last:
					r.Inc("racing_requests_sent_above_last_stream_id", 1)
					if done && err == nil {
						fail("disclaimed-request-reported-successful", fmt.Sprintf("request %s raced the GOAWAY onto stream %d, above last-stream-id %d, was never answered, yet its caller got success", q.Tag, sid, last))
					}
					if !done {
						fail("disclaimed-request-not-failed-promptly", fmt.Sprintf("GOAWAY(last-stream-id %d, %s) was delivered and the client is quiescent, but request %s, which was handed to the connection as the GOAWAY arrived and went out on stream %d (above it), is still unresolved", last, errName(code), q.Tag, sid))
					}
				default:
					r.Inc("racing_requests_sent_within_last_stream_id", 1)
				}
			}
		}
		// (3) requests above last-stream-id: resolved by now, never successfully
		for i, q := range reqs {
			sid := streamOf[q.Tag]
			if sid <= last || completed[sid] {
				continue
			}
			done, err, _ := calls[i].Outcome()
			if done && err == nil {
				fail("disclaimed-request-reported-successful", fmt.Sprintf("request %s on stream %d is above last-stream-id %d and was never answered, yet its caller got success", q.Tag, sid, last))
			}
			if !done {
				fail("disclaimed-request-not-failed-promptly", fmt.Sprintf("GOAWAY(last-stream-id %d, %s) was delivered and the client is quiescent, but request %s on stream %d (above it) is still unresolved", last, errName(code), q.Tag, sid))
			}
		}
		// new requests issued after the GOAWAY
		var late []*rt.Call
		for i := 0; i < lateReqs; i++ {
			q := genCliReq(rng, id, 100+i, 100, 100)
			late = append(late, e.Do(q.Tag, q.build))
		}
		rt.Wait()
		// (2) nothing may open a stream after the PING's ACK
		ackAt := -1
		fs := e.P.Frames()
		for i := goawayAt; i < len(fs); i++ {
			if fs[i].Type == wire.TPing && fs[i].Ack && string(fs[i].Ping[:]) == "afterGA!" {
				ackAt = i
			}
		}
		if ackAt >= 0 {
			for i := ackAt + 1; i < len(fs); i++ {
				if fs[i].Type == wire.THeaders {
					fail("stream-opened-after-goaway", fmt.Sprintf("HEADERS on stream %d arrived after the ACK of the PING that followed GOAWAY", fs[i].Stream))
				}
			}
		}
		// the server answers a PRNG subset of what it promised, in PRNG order, in steps
		var promised []*cliReq
		for _, q := range reqs {
			if streamOf[q.Tag] <= last {
				promised = append(promised, q)
			}
		}
		rng.Shuffle(len(promised), func(i, j int) { promised[i], promised[j] = promised[j], promised[i] })
		answer := promised[:rng.Intn(len(promised)+1)]
		for _, q := range answer {
			if rng.Intn(2) == 0 {
				sendHeaders(q)
				rt.Wait()
			}
			sendRest(q)
			if rng.Intn(2) == 0 {
				rt.Wait()
			}
		}
		rt.Wait()
		switch ending {
		case 1:
			e.PeerConn.Close()
		case 2:
			e.PeerConn.Reset()
		}
		rt.Wait()
		time.Sleep(2 * time.Second)
		rt.Wait()
		// (4) promised and completely answered => exactly that response
		for i, q := range reqs {
			sid := streamOf[q.Tag]
			if !completed[sid] {
				continue
			}
			if sid > last {
				continue // answered before the GOAWAY disclaimed it: either outcome is defensible
			}
			if d := q.checkDelivered(calls[i]); d != "" {
				fail("promised-response-not-delivered", fmt.Sprintf("request %s on stream %d (<= last-stream-id %d) was answered completely by the server, but %s", q.Tag, sid, last, d))
			}
		}
		for i, c := range late {
			if done, err, _ := c.Outcome(); done && err == nil {
				fail("late-request-succeeded", fmt.Sprintf("request #%d issued after GOAWAY reported success on a connection that accepts no new streams", i))
			}
		}
		_ = gaTime
		r.Inc("requests", int64(n))
		e.Finish()
	})
	c01Outcome(r, id, res, triggers, replay, "C11")
	r.Eval(vf.Hash("conn", n, lastClass, code, placement, ending, lateReqs, blockedUploads, graceful), true)
	if blockedUploads {
		r.Inc("cases_with_uploads_waiting_for_window_at_goaway", 1)
	}
	if r.WantSample() {
		r.Sample(replay)
	}
}

var _ = fasthttp.StatusOK
