package workers

import (
	"fmt"
	"os"
	"math/rand"
	"testing"

	http2 "github.com/dgrr/http2"
	"golang.org/x/net/http2/hpack"

	"h2v/hpackref"
	"h2v/vf"
)

type c03Block struct {
	Bytes []byte
	Want  []F
}

// c03History replays a history of header blocks against the SUT decoder, x/net and refdec.
// limit is the advertised SETTINGS_HEADER_TABLE_SIZE of the decoder.
func c03History(r *vf.Run, caseID string, limit uint32, blocks []c03Block, enc *hpackref.Enc, shape uint64) {
	// x/net rejects a second consecutive table size update when the table is not empty
	// (RFC 7541 4.2 allows it); histories that contain one are judged by the strict reference alone.
	useX := true
	for _, blk := range blocks {
		if n, rest, err := hpackref.ReadInt(blk.Bytes, 5); err == nil && len(blk.Bytes) > 0 && blk.Bytes[0]&0xe0 == 0x20 && len(rest) > 0 && rest[0]&0xe0 == 0x20 {
			_ = n
			useX = false
		}
	}
	if !useX {
		r.Inc("histories_judged_without_xnet(two_size_updates)", 1)
	}
	hp := http2.AcquireHPACK()
	defer http2.ReleaseHPACK(hp)
	if limit != 4096 {
		hp.SetMaxTableSize(limit)
	}
	xd := hpack.NewDecoder(4096, nil)
	xd.SetAllowedMaxDynamicTableSize(limit)
	rd := hpackref.NewDec(limit)
	replay := func(i int) any {
		var hx []string
		for j := 0; j <= i; j++ {
			hx = append(hx, fmt.Sprintf("%x", blocks[j].Bytes))
		}
		return map[string]any{"limit": limit, "blocks_hex": hx}
	}
	for i, blk := range blocks {
		// reference self-check
		var xf []hpack.HeaderField
		var xerr error
		if useX {
			xf, xerr = xd.DecodeFull(blk.Bytes)
		}
		rf, rerr := rd.DecodeBlock(blk.Bytes)
		if xerr != nil || rerr != nil || (useX && !fieldsEq(xnetFields(xf), blk.Want, true)) || !fieldsEq(rf, blk.Want, true) {
			if os.Getenv("VERIF_DEBUG") != "" {
				fmt.Printf("DISAGREE case=%s block=%d limit=%d xerr=%v rerr=%v\n  bytes=%x\n  want=[%s]\n  x=[%s]\n  r=[%s]\n", caseID, i, limit, xerr, rerr, blk.Bytes[:min(len(blk.Bytes), 80)], fmtFields(blk.Want), fmtFields(xnetFields(xf)), fmtFields(rf))
			}
			r.Inconclusive("harness: reference encoder/decoders disagree on a generated block")
			r.Inc("reference_disagreement", 1)
			return
		}
		bad := false
		r.Guard("C03.decode-panic", caseID, nil, replay(i), func() {
			got, _, noProg, err := sutDecodeBlock(hp, blk.Bytes)
			switch {
			case err != nil:
				r.Fail("C03.rejects-valid", caseID, fmt.Sprintf("block %d (%x…, %d bytes) is a conforming encoding of [%s] but the decoder returned error %q after %d fields",
					i, blk.Bytes[:min(len(blk.Bytes), 48)], len(blk.Bytes), fmtFields(blk.Want), err, len(got)), nil, replay(i))
				bad = true
			case noProg:
				r.Fail("C03.no-progress", caseID, fmt.Sprintf("block %d: a decoding step consumed nothing and returned no error", i), nil, replay(i))
				bad = true
			case !fieldsEq(got, blk.Want, true):
				r.Fail("C03.decode-mismatch", caseID, fmt.Sprintf("block %d (%x…): decoded [%s] want [%s]", i, blk.Bytes[:min(len(blk.Bytes), 48)], fmtFields(got), fmtFields(blk.Want)), nil, replay(i))
				bad = true
			}
			if bad {
				return
			}
			st := sutTable(hp)
			if !fieldsEq(st, enc2table(rd), false) {
				r.Fail("C03.table-desync", caseID, fmt.Sprintf("after block %d the decoder's dynamic table is [%s], the encoder's is [%s]", i, fmtFields(st), fmtFields(rd.T.Ents)), nil, replay(i))
				bad = true
				return
			}
			if cur, _ := hp.VerifLimits(); cur != rd.T.Max {
				r.Fail("C03.table-desync", caseID, fmt.Sprintf("after block %d the decoder's table limit is %d, the encoder's is %d", i, cur, rd.T.Max), nil, replay(i))
				bad = true
			}
		})
		if bad {
			break
		}
	}
	r.Eval(shape, true)
}

func enc2table(rd *hpackref.Dec) []F { return rd.T.Ents }

func TestC03(t *testing.T) {
	r := vf.Begin(t, "C03")
	defer r.End()
	r.Describe("(a) grid: every representation x name source (each static index, dynamic index, literal) x value lengths 0..70 and boundary lengths x Huffman on/off; "+
		"(b) PRNG histories of 1-40 header blocks with random representation/Huffman/index choices, table-size schedules within the advertised limit, evictions, oversized entries; "+
		"(c) mutations of valid blocks (truncate at every offset, bit flips, size update after a field, index 0, index past the table, overlong integers, bad Huffman) and (d) PRNG bytes, judged only where x/net and the strict reference agree. "+
		"Distinct = distinct structural shape (representation/index/length-class tuple), not payload bytes; all cases are non-trivial (they contain at least one representation).",
		"x/net/http2/hpack decoder and h2v/hpackref strict decoder are correct RFC 7541 decoders; a byte string is judged only when both agree",
		"the SUT decoder is driven through the verif shim VerifNextField exactly as the server's header loop drives nextField (complete block, blockStart=true, counted fields)")

	// ---- (a) grid ---------------------------------------------------------------
	lens := []int{}
	for i := 0; i <= 70; i++ {
		lens = append(lens, i)
	}
	lens = append(lens, 126, 127, 128, 129, 255, 256, 16383)
	ci := 0
	for rep := 0; rep < 4; rep++ {
		for src := 0; src <= 63; src++ { // 0 literal name, 1..61 static name index, 62 dynamic name index, 63 dynamic full match (indexed)
			for _, huff := range []int{0, 1, 2, 3} {
				ci++
				id := fmt.Sprintf("grid/%d/%d/%d", rep, src, huff)
				if !r.Want(ci, id) {
					continue
				}
				for _, vl := range lens {
					if !r.Thorough() && vl > 20 && vl < 60 && vl%4 != 0 {
						continue
					}
					enc := hpackref.NewEnc(4096)
					var blocks []c03Block
					var f F
					ch := hpackref.Choice{Rep: rep, NameIndex: src != 0, HuffName: huff&1 != 0, HuffValue: huff&2 != 0}
					val := randBytes(rand.New(rand.NewSource(int64(vl))), vl, 2)
					switch {
					case src == 0:
						f = F{Name: "x-grid-name", Value: val}
					case src <= 61:
						f = F{Name: hpackref.Static[src].Name, Value: val}
					default:
						// seed the dynamic table in a first block
						seed := F{Name: "x-dyn", Value: val}
						if src == 62 {
							seed.Value = "other"
						}
						b0, _ := enc.Field(nil, seed, hpackref.Choice{Rep: hpackref.RepIncremental})
						blocks = append(blocks, c03Block{b0, []F{seed}})
						f = F{Name: "x-dyn", Value: val}
						if src == 63 && rep != 0 {
							continue
						}
					}
					f.Sensitive = rep == hpackref.RepNever
					b, _ := enc.Field(nil, f, ch)
					// a second field after it, so a length byte that is swallowed shows up as a wrong list
					tail := F{Name: "x-tail", Value: "t"}
					b, _ = enc.Field(b, tail, hpackref.Choice{Rep: hpackref.RepWithout})
					blocks = append(blocks, c03Block{b, []F{f, tail}})
					c03History(r, id, 4096, blocks, enc, vf.Hash("grid", rep, src, huff, vl))
				}
			}
		}
	}

	// ---- (b) random histories -----------------------------------------------------
	nh := r.Pick(3000, 150000)
	for i := 0; i < nh; i++ {
		id := fmt.Sprintf("hist/%d", i)
		if !r.Want(i, id) {
			continue
		}
		rng := r.Rand(id)
		limit := uint32(4096)
		if rng.Intn(10) < 3 {
			limit = []uint32{0, 64, 256, 1000, 8192, 65536}[rng.Intn(6)]
		}
		enc := hpackref.NewEnc(4096)
		nb := 1 + rng.Intn(12)
		if rng.Intn(10) == 0 {
			nb = 1 + rng.Intn(40)
		}
		var blocks []c03Block
		var pool []F
		shape := []any{"hist", limit}
		for b := 0; b < nb; b++ {
			var out []byte
			if (b == 0 && limit != 4096) || rng.Intn(6) == 0 {
				k := 1
				if rng.Intn(5) == 0 {
					k = 2
				}
				for j := 0; j < k; j++ {
					var n uint32
					switch rng.Intn(4) {
					case 0:
						n = 0
					case 1:
						n = limit
					default:
						if limit > 0 {
							n = uint32(rng.Intn(int(limit) + 1))
						}
					}
					out = enc.SizeUpdate(out, n)
					shape = append(shape, "U")
				}
			}
			nf := 1 + rng.Intn(8)
			if rng.Intn(8) == 0 {
				nf = 1 + rng.Intn(25)
			}
			var want []F
			for j := 0; j < nf; j++ {
				f := randField(rng, &pool)
				ch := randChoice(rng)
				f.Sensitive = ch.Rep == hpackref.RepNever
				var rep int
				out, rep = enc.Field(out, f, ch)
				f.Sensitive = rep == hpackref.RepNever
				want = append(want, f)
				lc := 0
				switch {
				case len(f.Value) == 0:
					lc = 0
				case len(f.Value) < 127:
					lc = 1
				default:
					lc = 2
				}
				shape = append(shape, rep*100+lc*10+b2i(ch.HuffValue)*2+b2i(ch.NameIndex))
			}
			blocks = append(blocks, c03Block{out, want})
		}
		if r.WantSample() {
			var hx []string
			for _, b := range blocks[:min(len(blocks), 3)] {
				hx = append(hx, fmt.Sprintf("%x", b.Bytes[:min(len(b.Bytes), 64)]))
			}
			r.Sample(map[string]any{"kind": "history", "case": id, "advertised_limit": limit, "blocks": len(blocks), "first_blocks_hex_prefix": hx, "first_block_fields": fmtFields(blocks[0].Want)})
		}
		c03History(r, id, limit, blocks, enc, vf.Hash(shape...))
	}

	// ---- (c)+(d) rejection half: mutations and random bytes -------------------------
	nm := r.Pick(30000, 1500000)
	for i := 0; i < nm; i++ {
		id := fmt.Sprintf("mut/%d", i)
		if !r.Want(i, id) {
			continue
		}
		rng := r.Rand(id)
		c03Mutation(r, id, rng)
	}
}

func b2i(b bool) int {
	if b {
		return 1
	}
	return 0
}

// c03Mutation: a valid prefix history (0-2 blocks) then one mutated block; the SUT must reject iff both references reject,
// and when both accept it must produce their list.
func c03Mutation(r *vf.Run, id string, rng *rand.Rand) {
	enc := hpackref.NewEnc(4096)
	var pool []F
	var prefix [][]byte
	for b := rng.Intn(3); b > 0; b-- {
		var out []byte
		for j := 1 + rng.Intn(4); j > 0; j-- {
			f := randField(rng, &pool)
			if len(f.Value) > 200 {
				f.Value = f.Value[:200]
			}
			out, _ = enc.Field(out, f, randChoice(rng))
		}
		prefix = append(prefix, out)
	}
	var blk []byte
	for j := 1 + rng.Intn(4); j > 0; j-- {
		f := randField(rng, &pool)
		if len(f.Value) > 300 {
			f.Value = f.Value[:300]
		}
		blk, _ = enc.Field(blk, f, randChoice(rng))
	}
	kind := rng.Intn(13)
	switch kind {
	case 0: // truncate
		blk = blk[:rng.Intn(len(blk))]
	case 1: // bit flip
		blk[rng.Intn(len(blk))] ^= 1 << uint(rng.Intn(8))
	case 2: // size update after a field
		blk = hpackref.AppendInt(blk, 0x20, 5, uint64(rng.Intn(4097)))
		blk, _ = enc.Field(blk, F{Name: "x-after", Value: "1"}, hpackref.Choice{Rep: hpackref.RepWithout})
	case 3: // index 0
		blk = append(blk, 0x80)
	case 4: // index past the table
		blk = hpackref.AppendInt(blk, 0x80, 7, uint64(62+len(enc.T.Ents)+rng.Intn(3)))
	case 5: // name index past the table in a literal
		first := []byte{0x40, 0x00, 0x10}[rng.Intn(3)]
		pf := uint(4)
		if first == 0x40 {
			pf = 6
		}
		blk = hpackref.AppendInt(blk, first, pf, uint64(62+len(enc.T.Ents)+rng.Intn(200)))
		blk = hpackref.AppendString(blk, "v", false)
	case 6: // overlong / overflowing integer
		blk = append(blk, 0xff)
		for k := 0; k < 9+rng.Intn(3); k++ {
			blk = append(blk, 0xff)
		}
		blk = append(blk, 0x01)
	case 7: // size update above the limit at block start
		blk = append(hpackref.AppendInt(nil, 0x20, 5, uint64(4097+rng.Intn(100000))), blk...)
	case 8: // bad Huffman in a value
		blk = append(blk, 0x00, 0x01, 'n')
		bad := [][]byte{{0xff}, {0xff, 0xff, 0xff, 0xff}, {0x00}, {0x1f, 0xfe}}[rng.Intn(4)]
		blk = hpackref.AppendInt(blk, 0x80, 7, uint64(len(bad)))
		blk = append(blk, bad...)
	case 9: // random bytes
		blk = make([]byte, 1+rng.Intn(24))
		rng.Read(blk)
	case 11: // integers that only look valid after truncation to 32 bits
		k := uint64(1+rng.Intn(3)) << 32
		if rng.Intn(4) == 0 {
			k = 1 << 63
		}
		switch rng.Intn(4) {
		case 0: // table size update k*2^32 + r, r within the limit, at the block start
			blk = append(hpackref.AppendInt(nil, 0x20, 5, k+uint64(rng.Intn(4097))), blk...)
		case 1: // indexed field whose index is valid modulo 2^32
			blk = hpackref.AppendInt(blk, 0x80, 7, k+uint64(1+rng.Intn(61)))
		case 2: // literal with a name index valid modulo 2^32
			blk = hpackref.AppendInt(blk, 0x40, 6, k+uint64(1+rng.Intn(61)))
			blk = hpackref.AppendString(blk, "v", false)
		case 3: // string length valid modulo 2^32
			blk = append(blk, 0x00)
			blk = hpackref.AppendInt(blk, 0, 7, k+2)
			blk = append(blk, 'a', 'b', 0x00, 0x01, 'v')
		}
	case 12: // an integer of ten continuation octets whose value, prefix included, is 2^64 + t: arithmetic in 64 bits wraps it to t
		first, pf := []byte{0x80, 0x40, 0x00, 0x10}[rng.Intn(4)], uint(7)
		switch first {
		case 0x40:
			pf = 6
		case 0x00, 0x10:
			pf = 4
		}
		lim := uint64(1)<<pf - 1
		t := uint64(1 + rng.Intn(int(min(61, lim-1)))) // below the prefix limit, so that t - lim really is 2^64 + t - lim
		v := t - lim // modulo 2^64: v + lim == t + 2^64
		blk = append(blk, first|byte(lim))
		for k := 0; k < 9; k++ {
			blk = append(blk, byte(v&127)|128)
			v >>= 7
		}
		blk = append(blk, byte(v)) // the 64th bit
		if first != 0x80 {
			blk = hpackref.AppendString(blk, "v", false)
		}
	case 10: // string length larger than what is left
		blk = append(blk, 0x00)
		blk = hpackref.AppendInt(blk, 0, 7, uint64(5+rng.Intn(1<<20)))
		blk = append(blk, 'a', 'b')
	}
	hp := http2.AcquireHPACK()
	defer http2.ReleaseHPACK(hp)
	xd := hpack.NewDecoder(4096, nil)
	rd := hpackref.NewDec(4096)
	for _, p := range prefix {
		if _, err := xd.DecodeFull(p); err != nil {
			r.Inconclusive("harness: prefix rejected by x/net")
			return
		}
		if _, err := rd.DecodeBlock(p); err != nil {
			r.Inconclusive("harness: prefix rejected by refdec")
			return
		}
		if _, _, _, err := sutDecodeBlock(hp, p); err != nil {
			// valid prefix rejected: that is the acceptance half's business (family b); do not double report here
			r.Inc("mutation_prefix_rejected_by_sut", 1)
			return
		}
	}
	xf, xerr := xd.DecodeFull(blk)
	rf, rerr := rd.DecodeBlock(blk)
	replay := map[string]any{"mutation": kind, "block_hex": fmt.Sprintf("%x", blk), "prefix_blocks": len(prefix)}
	if (xerr == nil) != (rerr == nil) || (xerr == nil && !fieldsEq(xnetFields(xf), rf, true)) {
		r.Inc("reference_disagreement", 1)
		r.Eval(vf.Hash("mut-unjudged", kind), false)
		return
	}
	r.Guard("C03.decode-panic", id, nil, replay, func() {
		got, _, noProg, err := sutDecodeBlock(hp, blk)
		if xerr != nil {
			r.Inc("mutations_invalid", 1)
			if err == nil && !noProg {
				r.Fail("C03.accepts-invalid", id, fmt.Sprintf("mutation kind %d: block %x is invalid (x/net: %v; refdec: %v) but decoded to [%s]", kind, blk, xerr, rerr, fmtFields(got)), nil, replay)
			}
		} else {
			r.Inc("mutations_still_valid", 1)
			if len(blk) > 0 && onlySizeUpdatesAtEnd(blk, len(rf)) {
				r.Inc("not_judged_trailing_size_update", 1)
				return
			}
			if err != nil {
				r.Fail("C03.rejects-valid", id, fmt.Sprintf("mutation kind %d: block %x is valid ([%s]) but rejected: %v", kind, blk, fmtFields(rf), err), nil, replay)
			} else if !fieldsEq(got, rf, true) {
				r.Fail("C03.decode-mismatch", id, fmt.Sprintf("mutation kind %d: block %x decoded [%s] want [%s]", kind, blk, fmtFields(got), fmtFields(rf)), nil, replay)
			}
		}
	})
	r.Eval(vf.Hash("mut", kind, xerr == nil, len(prefix)), true)
}
