package workers

import (
	"bytes"
	"fmt"
	"os"
	"math/rand"
	"strings"
	"testing"
	"time"

	"h2v/rt"
	"h2v/vf"
	"h2v/wire"
)

type c01Params struct {
	K          int
	WindowMode int // 0 huge windows up front; 1 default windows, credit granted in PRNG increments
	GateMode   int // 0 none; 1 all parked, opened in a PRNG permutation; 2 parked, opened in request order
	Sequential bool
	Bursts     int
	MaxConc    int
}

func c01Scenario(r *vf.Run, t *testing.T, id string, rng *rand.Rand, g genOpts, rulePrefix string) {
	p := c01Params{K: 1 + rng.Intn(r.Pick(8, 32)), WindowMode: rng.Intn(2), GateMode: rng.Intn(3), Sequential: rng.Intn(5) == 0, Bursts: 1 + rng.Intn(4)}
	if rng.Intn(3) != 0 {
		p.K = 1 + rng.Intn(8)
	}
	p.MaxConc = p.K + rng.Intn(3)
	if rng.Intn(3) == 0 {
		p.MaxConc = 0
	}
	reqs := make([]*reqSpec, p.K)
	traits := []string{fmt.Sprintf("k%d", min(p.K, 9)), fmt.Sprintf("w%d", p.WindowMode), fmt.Sprintf("g%d", p.GateMode)}
	if p.K > 1 && !p.Sequential {
		traits = append(traits, "interleaved")
	}
	for i := range reqs {
		reqs[i] = genRequest(rng, id, i, g)
		if len(reqs[i].Body) > 4000 {
			var cs []int
			for _, c := range reqs[i].Chunks {
				if c >= 1000 {
					cs = append(cs, c)
				}
			}
			if len(cs) == 0 {
				cs = []int{16384}
			}
			reqs[i].Chunks = cs
			for j := range reqs[i].Pads {
				if reqs[i].Pads[j] > 1 {
					reqs[i].Pads[j] = 1
				}
			}
		}
		traits = append(traits, strings.Join(reqs[i].Traits, "+"))
	}
	perm := rng.Perm(p.K)
	grantSeed := rng.Int63()
	var triggers []string
	for _, q := range reqs {
		triggers = append(triggers, c01Triggers(q)...)
	}
	replay := map[string]any{"params": p, "requests": describeReqs(reqs)}
	fail := func(rule, detail string) {
		r.Fail(rulePrefix+"."+rule, id, detail, triggers, replay)
	}

	res := rt.RunBubble(t, id, 60*time.Second, func() {
		so := rt.ServerOpts{MaxConcurrentStreams: p.MaxConc, Debug: os.Getenv("VERIF_SUT_DEBUG") != ""}
		if p.WindowMode == 0 {
			so.PeerSettings = []wire.Setting{{ID: 4, Val: 1<<31 - 1}}
		}
		e := rt.NewServerEnv(id, so)
		if p.WindowMode == 0 {
			e.P.Write(rt.WindowUpdate(0, 1<<31-1-65535))
		}
		gates := make([]chan struct{}, p.K)
		for i, q := range reqs {
			pl := *q.Resp
			if p.GateMode != 0 {
				gates[i] = e.H.NewGate()
				pl.Gate = gates[i]
			}
			e.H.SetPlan(q.Tag, &pl)
		}
		// units
		data := make([][]unit, p.K)
		counts := make([]int, p.K)
		for i, q := range reqs {
			data[i] = q.dataUnits()
			counts[i] = len(data[i])
		}
		order := mergeOrder(rng, reqs, counts, p.Sequential)
		var wireBytes [][]byte
		for _, o := range order {
			q := reqs[o[0]]
			switch o[1] {
			case -1:
				wireBytes = append(wireBytes, q.headerBytes(e.P))
			case -2:
				wireBytes = append(wireBytes, q.trailerBytes(e.P))
			default:
				wireBytes = append(wireBytes, data[o[0]][o[1]].frame)
			}
		}
		// send in bursts with quiescence in between
		per := (len(wireBytes) + p.Bursts - 1) / p.Bursts
		for i := 0; i < len(wireBytes); i += per {
			e.P.Write(rt.Concat(wireBytes[i:min(i+per, len(wireBytes))]))
			rt.Wait()
		}
		// frames a peer may send at any time on streams whose handlers have not answered yet
		var actions []rt.Action
		if p.GateMode != 0 {
			var extra []byte
			for _, q := range reqs {
				if rng.Intn(3) == 0 {
					dep := q.Stream + 2
					extra = append(extra, rt.Priority(q.Stream, dep, rng.Intn(2) == 0, byte(rng.Intn(256)))...)
				}
				if p.WindowMode == 1 && rng.Intn(3) == 0 {
					inc := uint32(1 + rng.Intn(500))
					actions = append(actions, rt.Action{At: e.P.NFrames(), Kind: "wu", Stream: q.Stream, Val: int64(inc)})
					extra = append(extra, rt.WindowUpdate(q.Stream, inc)...)
				}
			}
			if len(extra) > 0 {
				e.P.Write(extra)
				rt.Wait()
			}
		}
		// let handlers finish in the chosen order
		switch p.GateMode {
		case 1:
			for _, i := range perm {
				rt.Open(gates[i])
				if i%2 == 0 {
					rt.Wait()
				}
			}
		case 2:
			for i := range gates {
				rt.Open(gates[i])
				rt.Wait()
			}
		}
		rt.Wait()
		// grant credit until every response is complete
		if p.WindowMode == 1 {
			grng := rand.New(rand.NewSource(grantSeed))
			for iter := 0; iter < 400; iter++ {
				fs := e.P.Frames()
				pendingAny := false
				var out []byte
				var connInc uint32
				for _, q := range reqs {
					got := len(rt.BodyOf(fs, q.Stream))
					if got < len(q.Resp.Body) {
						pendingAny = true
						inc := uint32(1 + grng.Intn(70000))
						if grng.Intn(4) == 0 {
							inc = uint32(1 + grng.Intn(100))
						}
						out = append(out, rt.WindowUpdate(q.Stream, inc)...)
						connInc += inc
					}
				}
				if !pendingAny {
					break
				}
				out = append(out, rt.WindowUpdate(0, connInc)...)
				at := e.P.NFrames()
				for _, fb := range splitFrames(out) {
					actions = append(actions, rt.Action{At: at, Kind: "wu", Stream: uint32(fb[5]&0x7f)<<24 | uint32(fb[6])<<16 | uint32(fb[7])<<8 | uint32(fb[8]), Val: int64(uint32(fb[9])<<24 | uint32(fb[10])<<16 | uint32(fb[11])<<8 | uint32(fb[12]))})
				}
				e.P.Write(out)
				rt.Wait()
				// every response whose handler has returned must use the credit it was given
				led := &rt.Ledger{InitWindow: 65535}
				for _, q := range reqs {
					led.Opened = append(led.Opened, q.Stream)
				}
				viol, st := led.Replay(e.P.Frames(), actions, 1)
				if viol != "" {
					fail("window-exceeded", viol)
					break
				}
				stalled := false
				for _, q := range reqs {
					owed := int64(len(q.Resp.Body)) - st.Sent[q.Stream]
					if owed > 0 && st.Streams[q.Stream] > 0 && st.Conn > 0 {
						fail("response-stalled", fmt.Sprintf("response %s (stream %d) still owes %d bytes with stream window %d and connection window %d while the server is quiescent", q.Tag, q.Stream, owed, st.Streams[q.Stream], st.Conn))
						stalled = true
					}
				}
				if stalled {
					break
				}
			}
		}
		fs := e.P.Frames()
		recs, _, _, _ := e.H.Snapshot()
		// (1) exactly once
		seen := map[string]int{}
		byTag := map[string]rt.ReqRec{}
		for _, rc := range recs {
			seen[rc.Tag]++
			byTag[rc.Tag] = rc
		}
		for _, q := range reqs {
			if seen[q.Tag] != 1 {
				fail("handler-runs", fmt.Sprintf("request %s (stream %d) reached the handler %d times; tags handled: %v; frames from server: %s", q.Tag, q.Stream, seen[q.Tag], seen, frameSummary(fs)))
				continue
			}
			if d := checkRequestSeen(q, byTag[q.Tag]); d != "" {
				fail("request-mismatch", fmt.Sprintf("request %s (stream %d): handler saw %s", q.Tag, q.Stream, d))
			}
			if d := checkResponse(q, rt.FramesFor(fs, q.Stream)); d != "" {
				fail("response-mismatch", fmt.Sprintf("response %s (stream %d, handler plan: status %d, %d fields, body %d, stream mode %d chunk %d): %s", q.Tag, q.Stream, q.Resp.Status, len(q.Resp.Fields), len(q.Resp.Body), q.Resp.Stream, q.Resp.ReadChunk, d))
			}
		}
		for tag, n := range seen {
			if !strings.HasPrefix(tag, id+".") {
				fail("handler-runs", fmt.Sprintf("handler ran %d times for %q which was never sent", n, tag))
			}
		}
		for _, f := range fs {
			if f.Type == wire.TGoAway {
				fail("error-frame", fmt.Sprintf("server sent %s during well-formed traffic", f))
			}
			if f.Type == wire.TRstStream {
				fail("error-frame", fmt.Sprintf("server sent %s during well-formed traffic", f))
			}
		}
		if os.Getenv("VERIF_SUT_DEBUG") != "" {
			for _, l := range e.Log.Snapshot() {
				fmt.Print("SUTLOG ", l)
			}
			for _, g := range rt.GoroutinesOf(id, "dgrr/http2.") {
				fmt.Println("GOROUTINE", g)
			}
			for _, wb := range wireBytes {
				fmt.Printf("SENT type=%d flags=%#x stream=%d len=%d total=%d\n", wb[3], wb[4], wb[8], int(wb[0])<<16|int(wb[1])<<8|int(wb[2]), len(wb))
			}
		}
		r.Inc("requests", int64(p.K))
		r.Inc("frames_from_server", int64(len(fs)))
		e.Finish()
	})
	c01Outcome(r, id, res, triggers, replay, rulePrefix)
	nontrivial := p.K >= 2 || strings.Contains(strings.Join(traits, ","), "split") || strings.Contains(strings.Join(traits, ","), "pad")
	r.Eval(vf.Hash(traits), nontrivial)
	if r.WantSample() {
		r.Sample(map[string]any{"case": id, "params": p, "traits": traits})
	}
}

func c01Outcome(r *vf.Run, id string, res rt.CaseResult, triggers []string, replay any, rulePrefix string) {
	if rej := rt.TakeRejected(); len(rej) > 0 {
		switch rulePrefix {
		case "C14", "C18", "C01", "C02", "C06", "C07":
			// an increment of 0, or a frame no conforming reader accepts, is part of what C14 and C18 forbid; in C01/C02/C06/C07
			// the peer is a conforming endpoint, which answers such a frame with a stream or connection error: the message the
			// property says it receives intact is lost
			r.Fail(rulePrefix+".frame-rejected-by-independent-reader", id, strings.Join(rej, "\n"), triggers, replay)
		default:
			r.Inc("frames_of_the_library_rejected_by_the_independent_reader", int64(len(rej)))
		}
	}
	switch {
	case res.TimedOut && len(res.MutexStuck) > 0:
		// a goroutine waiting for a sync.Mutex is not durably blocked, so the bubble never becomes quiescent: a wait-for
		// cycle among the library's goroutines shows up as the watchdog firing with these goroutines parked in Lock
		r.Fail(rulePrefix+".deadlock", id, "the bubble never became quiescent and these goroutines of the connection were waiting for a mutex when the watchdog fired:\n"+strings.Join(res.MutexStuck, "\n")+"\nother goroutines of the connection at that moment:\n"+strings.Join(res.Others, "\n"), triggers, replay)
	case res.TimedOut:
		r.Inconclusive("real-time watchdog expired inside a bubble")
	case res.Panic != "":
		r.Fail(rulePrefix+".harness-or-sut-panic", id, "panic on the scenario goroutine: "+res.Panic+"\n"+res.PanicStack, triggers, replay)
	case res.Deadlock:
		r.Inc("bubbles_ended_with_stuck_goroutines", 1)
	}
}

func frameSummary(fs []rt.Frame) string {
	var sb strings.Builder
	for i, f := range fs {
		if i > 14 {
			fmt.Fprintf(&sb, " …(%d frames)", len(fs))
			break
		}
		sb.WriteString(" " + f.String())
	}
	return sb.String()
}

func describeReqs(reqs []*reqSpec) []map[string]any {
	var out []map[string]any
	for _, q := range reqs {
		out = append(out, map[string]any{"tag": q.Tag, "stream": q.Stream, "pseudo": fmtFields(q.Pseudo), "fields": fmtFields(q.Fields), "trailers": fmtFields(q.Trailers),
			"body_len": len(q.Body), "splits": q.SplitSeed, "pad": q.PadLen, "prio": q.Prio, "chunks": q.Chunks, "pads": q.Pads, "end_mode": q.EndMode,
			"resp_status": q.Resp.Status, "resp_fields": q.Resp.Fields, "resp_body_len": len(q.Resp.Body), "resp_stream": q.Resp.Stream, "resp_read_chunk": q.Resp.ReadChunk})
	}
	return out
}

// c01Triggers: input-only predicates of known findings.
func c01Triggers(q *reqSpec) []string {
	var t []string
	if len(q.Trailers) > 0 && len(q.TrailerSplits) > 0 {
		t = append(t, "req.trailersContinuedInContinuation")
	}
	return t
}

func TestC01(t *testing.T) {
	r := vf.Begin(t, "C01")
	defer r.End()
	defer perturbReport(r)
	r.Describe("PRNG scenarios on one server connection in a synctest bubble: 1-8 (thorough up to 32) well-formed requests (7 methods, paths with queries, 0-12 regular fields incl. repeated names, cookies, te: trailers, empty/long values, optional trailers, bodies 0..300 KiB) "+
		"encoded by the harness' HPACK encoder with random representation/Huffman/index choices and dynamic-table reuse across streams, header blocks cut at arbitrary bytes into HEADERS+CONTINUATION, padding, priority sections, DATA chunking with empty and padded frames, four END_STREAM placements, random cross-stream interleaving, "+
		"handlers parked and released in PRNG order, buffered and streamed (declared/unknown length, 1-byte..100 KiB reads) responses up to 300 KiB under huge or incrementally granted windows. Oracle: handler ran exactly once per tag and saw exactly the sent method/URI/host/fields/trailers/body; the peer (x/net Framer+HPACK) got exactly the planned status/fields/body, one END_STREAM, no error frames. "+
		"Non-trivial = at least 2 streams or a split header block or padding; distinct = distinct trait vectors.",
		"fasthttp's API is value-preserving for the compared accessors (Method, RequestURI, Host, Header.All, Body)",
		"x/net http2 Framer and hpack decoder read the server's frames correctly")
	n := r.Pick(500, 30000)
	g := genOpts{MaxBody: r.Pick(40000, 300000), AllowTrail: true, AllowUnder: true, RespStream: true, AllowStream2: true, MaxRespBody: r.Pick(100000, 300000), SizeUpdates: true}
	for i := 0; i < n; i++ {
		id := fmt.Sprintf("s%d", i)
		if !r.Want(i, id) {
			continue
		}
		r.Progress(id, "")
		if vf.Hash("c01-family", id)%20 == 0 {
			c01IdleProducer(r, t, id, r.Rand(id))
			continue
		}
		c01Scenario(r, t, id, r.Rand(id), g, "C01")
	}
}

// c01IdleProducer: one response is produced by a stream writer that goes quiet after its first chunk (server-sent events,
// a slow backend). Requests multiplexed on the same connection are still served while it is quiet: "in whatever order
// handlers finish" includes a handler whose body is not finished for a long time.
func c01IdleProducer(r *vf.Run, t *testing.T, id string, rng *rand.Rand) {
	nOther := 1 + rng.Intn(3)
	total := 2000 + rng.Intn(30000)
	chunk := 100 + rng.Intn(1500)
	replay := map[string]any{"family": "idle-producer", "other_requests": nOther, "streamed_body": total, "first_chunk": chunk}
	failed := false
	// input-only trigger of known finding F-C01-6: a response body whose producer goes quiet while other requests arrive
	triggers := []string{"resp.streamWriterIdleWhileOtherRequestsArrive"}
	fail := func(rule, detail string) {
		if !failed {
			r.Fail("C01."+rule, id, detail, triggers, replay)
		}
		failed = true
	}
	res := rt.RunBubble(t, id, 60*time.Second, func() {
		e := rt.NewServerEnv(id, rt.ServerOpts{})
		e.P.Write(rt.WindowUpdate(0, 1<<24))
		gate := e.H.NewGate()
		body := make([]byte, total)
		rng.Read(body)
		slowTag := id + ".slow"
		e.H.SetPlan(slowTag, &rt.RespPlan{Status: 200, Body: body, Stream: 3, ReadChunk: chunk, WriterGate: gate})
		e.P.Write(simpleGet(e.P, 1, slowTag))
		rt.Wait()
		var firstSeen int
		for _, f := range rt.FramesFor(e.P.Frames(), 1) {
			if f.Type == wire.TData {
				firstSeen += int(f.Len)
			}
		}
		for i := 0; i < nOther; i++ {
			sid := uint32(3 + 2*i)
			tag := fmt.Sprintf("%s.%d", id, sid)
			e.H.SetPlan(tag, &rt.RespPlan{Status: 200, Body: []byte("answer for " + tag)})
			e.P.Write(simpleGet(e.P, sid, tag))
			rt.Wait()
			done := false
			var got []byte
			for _, f := range rt.FramesFor(e.P.Frames(), sid) {
				if f.Type == wire.TData {
					got = append(got, f.Data...)
				}
				done = done || f.EndStream
			}
			if !done || string(got) != "answer for "+tag {
				fail("response-blocked-behind-an-idle-body", fmt.Sprintf("request %s (stream %d) was sent while the response on stream 1 is waiting for its producer (a stream writer that has delivered %d of %d bytes and is quiet); the server is quiescent and stream %d has received %d body bytes, END_STREAM %v", tag, sid, firstSeen, total, sid, len(got), done))
				break
			}
		}
		rt.Open(gate)
		rt.Wait()
		var slow []byte
		end := false
		for _, f := range rt.FramesFor(e.P.Frames(), 1) {
			if f.Type == wire.TData {
				slow = append(slow, f.Data...)
			}
			end = end || f.EndStream
		}
		if !failed && (!end || !bytes.Equal(slow, body)) {
			fail("response-mismatch", fmt.Sprintf("the slow response on stream 1: %d of %d bytes arrived, END_STREAM %v", len(slow), total, end))
		}
		r.Inc("idle_producer_cases", 1)
		e.Finish()
	})
	c01Outcome(r, id, res, triggers, replay, "C01")
	r.Eval(vf.Hash("idle-producer", nOther, total/5000), true)
}
