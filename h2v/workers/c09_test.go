package workers

import (
	"fmt"
	"math/rand"
	"strings"
	"testing"
	"time"

	"h2v/hpackref"
	"h2v/rt"
	"h2v/vf"
	"h2v/wire"
)

type c09Offender struct {
	Kind   string
	Stream uint32
	Tag    string
	// Fields the offending block inserted into the dynamic table (later requests reference them)
	Inserted []F
	Detail   string
}

var incr = hpackref.Choice{Rep: hpackref.RepIncremental, NameIndex: true, HuffValue: true}
var lit = hpackref.Choice{Rep: hpackref.RepWithout}

func TestC09(t *testing.T) {
	r := vf.Begin(t, "C09")
	defer r.End()
	defer perturbReport(r)
	r.Describe("PRNG scenarios (synctest bubble, one server connection): 1-3 offending streams from a catalogue of stream-scoped offences - malformed field at position j of a header block that inserts dynamic-table entries before and after j (block in one frame or continued), "+
		"body over MaxRequestBodySize (declared / undeclared), stream refused over MaxConcurrentStreams, peer RST_STREAM at five points of a request's life, handler panic, stream WINDOW_UPDATE overflow, content-length mismatch, each optionally followed by frames still in flight after the server's own RST_STREAM (DATA, trailers, CONTINUATION, WINDOW_UPDATE, RST_STREAM) - "+
		"placed among 2-6 well-formed streams before, concurrent with and after them; the later well-formed requests are encoded with indexed references to the dynamic-table entries the offending blocks inserted. Oracle: C01's exactly-once/request/response integrity on every non-offending stream, no GOAWAY, the final probe request is served. "+
		"Distinct = distinct (offence kinds, offence points, placement) vectors.",
		"the catalogue only contains offences RFC 7540 makes stream-scoped; connection-scoped offences are C10's")
	n := r.Pick(600, 40000)
	for i := 0; i < n; i++ {
		id := fmt.Sprintf("o%d", i)
		if !r.Want(i, id) {
			continue
		}
		r.Progress(id, "")
		c09Scenario(r, t, id, r.Rand(id))
	}
}

func c09Scenario(r *vf.Run, t *testing.T, id string, rng *rand.Rand) {
	g := genOpts{MaxBody: 900, AllowTrail: true, AllowUnder: true, RespStream: true, AllowStream2: true, MaxRespBody: 3000}
	const bodyLimit = 1000
	kinds := []string{"malformed-field", "malformed-field", "malformed-field-continued", "body-too-large-declared", "body-too-large-undeclared", "refused", "peer-rst-after-headers", "peer-rst-mid-body",
		"peer-rst-handler-running", "peer-rst-response-blocked", "peer-rst-after-done", "handler-panic", "window-overflow", "cl-mismatch", "timeout-half-open", "timeout-handler-running", "response-read-error"}
	nOff := 1 + rng.Intn(2)
	var offKinds []string
	for i := 0; i < nOff; i++ {
		offKinds = append(offKinds, kinds[rng.Intn(len(kinds))])
	}
	inflight := rng.Intn(2) == 0
	// smallHdrLimit: MaxHeaderListSize is 4096 and every offending block carries about 2.5 kB of fields: each block is within
	// the limit, two of them together are not - what is counted for one block must not be carried over to the next
	smallHdrLimit := rng.Intn(5) == 0
	longHistory := rng.Intn(12) == 0
	nBefore, nAfter := rng.Intn(3), 1+rng.Intn(2)
	var triggers []string
	if longHistory {
		inflight = true
	}
	replay := map[string]any{"small_header_list_limit": smallHdrLimit, "offences": offKinds, "frames_in_flight_after_reset": inflight, "before": nBefore, "after": nAfter, "more_than_256_streams_before": longHistory}
	failed := false
	fail := func(rule, detail string) {
		if !failed {
			r.Fail("C09."+rule, id, detail, triggers, replay)
		}
		failed = true
	}
	hasRefused := false
	hasTimeout := false
	for _, k := range offKinds {
		hasRefused = hasRefused || k == "refused"
		hasTimeout = hasTimeout || strings.HasPrefix(k, "timeout-")
	}
	const readTimeout = 5 * time.Second
	res := rt.RunBubble(t, id, 30*time.Second, func() {
		so := rt.ServerOpts{MaxRequestBodySize: bodyLimit}
		if smallHdrLimit {
			so.MaxHeaderListSize = 4096
		}
		if hasRefused {
			so.MaxConcurrentStreams = 2
		}
		if hasTimeout {
			so.ReadTimeout = readTimeout // the server gives a request this long (virtual time only passes where the script sleeps)
		}
		e := rt.NewServerEnv(id, so)
		e.P.Write(rt.WindowUpdate(0, 1<<30)) // the connection window never limits the well-formed streams
		var good []*reqSpec
		nextStream := 0
		newGood := func(extra []F) *reqSpec {
			q := genRequest(rng, id, nextStream, g)
			nextStream++
			if smallHdrLimit {
				// the well-formed requests themselves stay well within the small limit
				trim := func(fs []F, budget int) []F {
					var out []F
					for _, f := range fs {
						if budget -= len(f.Name) + len(f.Value) + 32; budget < 0 {
							break
						}
						out = append(out, f)
					}
					return out
				}
				q.Fields, q.Trailers = trim(q.Fields, 1500), trim(q.Trailers, 400)
				if q.EndMode == 3 && len(q.Trailers) == 0 {
					q.Trailers = []F{{Name: "x-trailer-short", Value: "1"}}
				}
				extra = nil
			}
			// later requests reference what offending blocks inserted
			for _, f := range extra {
				q.Fields = append(q.Fields, f)
			}
			q.Choices = []hpackref.Choice{{Rep: hpackref.RepIndexed, NameIndex: true, HuffValue: true, HuffName: true}, incr, lit}
			e.H.SetPlan(q.Tag, q.Resp)
			good = append(good, q)
			return q
		}
		sendGood := func(q *reqSpec) {
			if hasRefused {
				// with a concurrency limit of 2 a conforming peer only opens a stream when it has a free slot
				rt.Wait()
			}
			var out []byte
			out = append(out, q.headerBytes(e.P)...)
			for _, u := range q.dataUnits() {
				out = append(out, u.frame...)
			}
			if q.EndMode == 3 {
				out = append(out, q.trailerBytes(e.P)...)
			}
			e.P.Write(out)
		}
		for i := 0; i < nBefore; i++ {
			sendGood(newGood(nil))
		}
		rt.Wait()
		if longHistory {
			// more completed streams than the server remembers as recently closed
			cnt := 256 + rng.Intn(60)
			for i := 0; i < cnt; i++ {
				n := nextStream
				nextStream++
				e.P.Write(simpleGet(e.P, uint32(2*n+1), fmt.Sprintf("%s.h%d", id, n)))
				if i%40 == 39 {
					rt.Wait()
				}
			}
			rt.Wait()
		}
		var inserted []F
		var offenderStreams []uint32 // streams whose response body reader was planned to fail
		var parkGates []chan struct{}
		for oi, kind := range offKinds {
			n := nextStream
			nextStream++
			sid := uint32(2*n + 1)
			tag := fmt.Sprintf("%s.%d", id, n)
			base := []F{{Name: ":method", Value: "POST"}, {Name: ":scheme", Value: "https"}, {Name: ":path", Value: "/off/" + tag}, {Name: ":authority", Value: "o.example"}, {Name: "x-vtag", Value: tag}}
			ins1 := F{Name: fmt.Sprintf("x-ins-a-%d", oi), Value: "before-" + randToken(rng, 8, customNameAlphabet)}
			ins2 := F{Name: fmt.Sprintf("x-ins-b-%d", oi), Value: "after-" + randToken(rng, 8, customNameAlphabet)}
			if smallHdrLimit {
				ins2.Value += randToken(rng, 2400, customNameAlphabet)
			}
			enc := func(fs []F, cs []hpackref.Choice) []byte {
				// every third block of an offender opens with a dynamic table size update (the peer resized its table and this
				// happens to be its next block): refused, abandoned or late, the block is still decoded, update included
				var upd []byte
				if rng.Intn(3) == 0 {
					for _, n := range [][]uint32{{4096}, {0, 4096}, {1000, 4096}, {2000}}[rng.Intn(4)] {
						upd = e.P.Enc.SizeUpdate(upd, n)
					}
					r.Inc("offender_blocks_starting_with_a_table_size_update", 1)
				}
				return append(upd, e.P.EncodeBlock(fs, cs)...)
			}
			choicesFor := func(fs []F) []hpackref.Choice {
				cs := make([]hpackref.Choice, len(fs))
				for i, f := range fs {
					cs[i] = lit
					if strings.HasPrefix(f.Name, "x-ins-") {
						cs[i] = incr
					}
				}
				return cs
			}
			data := func(n int, end bool) []byte {
				var fl byte
				if end {
					fl = wire.FEndStream
				}
				return wire.Frame(nil, wire.TData, fl, sid, make([]byte, n), -1)
			}
			serverResets := false // the offence makes the server reset the stream itself
			switch kind {
			case "malformed-field", "malformed-field-continued":
				bad := []F{{Name: "X-Upper", Value: "v"}, {Name: "connection", Value: "close"}, {Name: "te", Value: "gzip"}, {Name: ":path", Value: "/late"}, {Name: ":method", Value: "GET"}, {Name: ":unknown", Value: "x"}}[rng.Intn(6)]
				fs := append(append([]F{}, base...), ins1, bad, ins2)
				blk := enc(fs, choicesFor(fs))
				inserted = append(inserted, ins1, ins2)
				hasBody := inflight
				var splits []int
				if kind == "malformed-field-continued" {
					splits = []int{1 + rng.Intn(len(blk)-1)}
					if rng.Intn(2) == 0 {
						splits = append(splits, splits[0]+rng.Intn(len(blk)-splits[0]))
					}
					triggers = append(triggers, "seq.frameAfterStreamErrorOnSameStream")
				}
				out := rt.Concat(rt.HeaderFrames(sid, blk, splits, -1, nil, !hasBody))
				if hasBody {
					out = append(out, data(100, false)...)
					out = append(out, data(50, true)...)
					triggers = append(triggers, "seq.frameAfterStreamErrorOnSameStream")
				}
				triggers = append(triggers, "hpack.blockAbandonedAfterMalformedField")
				e.P.Write(out)
				serverResets = true
			case "body-too-large-declared":
				fs := append(append([]F{}, base...), ins1, F{Name: "content-length", Value: fmt.Sprint(bodyLimit + 500)}, ins2)
				inserted = append(inserted, ins1, ins2)
				out := rt.Concat(rt.HeaderFrames(sid, enc(fs, choicesFor(fs)), nil, -1, nil, false))
				triggers = append(triggers, "hpack.blockAbandonedAfterMalformedField")
				if inflight {
					out = append(out, data(bodyLimit, false)...)
					out = append(out, data(500, true)...)
					triggers = append(triggers, "seq.frameAfterStreamErrorOnSameStream")
				}
				e.P.Write(out)
				serverResets = true
			case "body-too-large-undeclared":
				fs := append(append([]F{}, base...), ins1, ins2)
				inserted = append(inserted, ins1, ins2)
				out := rt.Concat(rt.HeaderFrames(sid, enc(fs, choicesFor(fs)), nil, -1, nil, false))
				out = append(out, data(bodyLimit-1, false)...)
				out = append(out, data(2, !inflight)...)
				if inflight {
					out = append(out, data(700, false)...)
					tb := enc([]F{{Name: "x-trailer-late", Value: "1"}}, nil)
					out = append(out, rt.Concat(rt.HeaderFrames(sid, tb, nil, -1, nil, true))...)
					triggers = append(triggers, "seq.frameAfterStreamErrorOnSameStream")
				}
				e.P.Write(out)
				serverResets = true
			case "refused":
				// fill both slots with parked handlers first
				rt.Wait()
				for k := 0; k < 2; k++ {
					q := newGood(nil)
					gt := e.H.NewGate()
					parkGates = append(parkGates, gt)
					pl := *q.Resp
					pl.Gate = gt
					e.H.SetPlan(q.Tag, &pl)
					hasRefused = false
					sendGood(q)
					hasRefused = true
				}
				rt.Wait()
				n = nextStream
				nextStream++
				sid = uint32(2*n + 1)
				tag = fmt.Sprintf("%s.%d", id, n)
				base[2].Value, base[4].Value = "/off/"+tag, tag
				fs := append(append([]F{}, base...), ins1, ins2)
				inserted = append(inserted, ins1, ins2)
				out := rt.Concat(rt.HeaderFrames(sid, enc(fs, choicesFor(fs)), nil, -1, nil, !inflight))
				if inflight {
					// what a peer that has not read the refusal yet still sends on the stream: the body, or it gives the request up
					// itself, or credit / priority for it
					switch rng.Intn(4) {
					case 0:
						out = append(out, wire.Frame(nil, wire.TData, wire.FEndStream, sid, make([]byte, 100), -1)...)
					case 1:
						out = append(out, rt.RstStream(sid, 8)...)
					case 2:
						out = append(out, wire.Frame(nil, wire.TData, 0, sid, make([]byte, 100), -1)...)
						out = append(out, rt.RstStream(sid, 8)...)
					case 3:
						out = append(out, rt.WindowUpdate(sid, 1000)...)
						out = append(out, rt.Priority(sid, 0, false, 5)...)
						out = append(out, wire.Frame(nil, wire.TData, wire.FEndStream, sid, make([]byte, 100), -1)...)
					}
				}
				triggers = append(triggers, "hpack.refusedStreamHeaderBlock")
				e.P.Write(out)
				rt.Wait()
				for _, gt := range parkGates {
					rt.Open(gt)
				}
				rt.Wait()
			case "peer-rst-after-headers", "peer-rst-mid-body", "peer-rst-handler-running", "peer-rst-response-blocked", "peer-rst-after-done":
				fs := append(append([]F{}, base...), ins1, ins2)
				inserted = append(inserted, ins1, ins2)
				pl := &rt.RespPlan{Status: 200, Body: make([]byte, 200)}
				var gt chan struct{}
				switch kind {
				case "peer-rst-handler-running":
					gt = e.H.NewGate()
					pl.Gate = gt
				case "peer-rst-response-blocked":
					pl.Body = make([]byte, 200000) // more than the 65535 initial window
				}
				e.H.SetPlan(tag, pl)
				blk := enc(fs, choicesFor(fs))
				switch kind {
				case "peer-rst-after-headers":
					e.P.Write(rt.Concat(rt.HeaderFrames(sid, blk, nil, -1, nil, false)))
					rt.Wait()
				case "peer-rst-mid-body":
					e.P.Write(append(rt.Concat(rt.HeaderFrames(sid, blk, nil, -1, nil, false)), data(300, false)...))
					rt.Wait()
				default:
					e.P.Write(rt.Concat(rt.HeaderFrames(sid, blk, nil, -1, nil, true)))
					rt.Wait()
				}
				out := rt.RstStream(sid, 8)
				if inflight {
					out = append(out, rt.WindowUpdate(sid, 100)...)
					out = append(out, rt.RstStream(sid, 8)...)
				}
				e.P.Write(out)
				rt.Wait()
				if gt != nil {
					rt.Open(gt)
					rt.Wait()
				}
			case "timeout-half-open", "timeout-handler-running":
				// the server itself gives up on the request (ReadTimeout) and resets the stream; the peer, which has not
				// seen that yet, carries on: the rest of the body and trailers that insert a table entry of their own
				fs := append(append([]F{}, base...), ins1, ins2)
				inserted = append(inserted, ins1, ins2)
				var gt chan struct{}
				var midBlock []byte
				if kind == "timeout-handler-running" {
					gt = e.H.NewGate()
					e.H.SetPlan(tag, &rt.RespPlan{Status: 200, Body: make([]byte, 300), Gate: gt})
					e.P.Write(rt.Concat(rt.HeaderFrames(sid, enc(fs, choicesFor(fs)), nil, -1, nil, true)))
				} else if rng.Intn(3) == 0 {
					// the request is still in the middle of its header block when the server gives up on it: the block is cut
					// inside a field, and its rest arrives (CONTINUATION) after the timeout, for a stream that no longer exists
					blk := enc(fs, choicesFor(fs))
					cut := 1 + rng.Intn(len(blk)-1)
					frames := rt.HeaderFrames(sid, blk, []int{cut}, -1, nil, false)
					e.P.Write(frames[0])
					midBlock = rt.Concat(frames[1:])
					r.Inc("request_timeouts_in_the_middle_of_a_header_block", 1)
				} else {
					e.P.Write(append(rt.Concat(rt.HeaderFrames(sid, enc(fs, choicesFor(fs)), nil, -1, nil, false)), data(200, false)...))
				}
				rt.Wait()
				time.Sleep(readTimeout + time.Second)
				rt.Wait()
				if midBlock != nil {
					e.P.Write(midBlock)
					rt.Wait()
				}
				reset := false
				for _, f := range rt.FramesFor(e.P.Frames(), sid) {
					reset = reset || f.Type == wire.TRstStream
				}
				if !reset {
					r.Inc("request_timeouts_without_rst_stream", 1)
				} else {
					r.Inc("streams_reset_by_the_server_on_request_timeout", 1)
				}
				if inflight {
					var out []byte
					if kind == "timeout-half-open" {
						ins3 := F{Name: fmt.Sprintf("x-ins-c-%d", oi), Value: "trailer-" + randToken(rng, 8, customNameAlphabet)}
						out = append(out, data(300, false)...)
						out = append(out, rt.Concat(rt.HeaderFrames(sid, enc([]F{ins3}, []hpackref.Choice{incr}), nil, -1, nil, true))...)
						inserted = append(inserted, ins3)
					} else {
						out = append(out, rt.WindowUpdate(sid, 1000)...)
						out = append(out, rt.RstStream(sid, 8)...)
					}
					e.P.Write(out)
					triggers = append(triggers, "seq.frameAfterStreamErrorOnSameStream")
					rt.Wait()
				}
				if gt != nil {
					rt.Open(gt)
					rt.Wait()
				}
				serverResets = true
			case "handler-panic":
				fs := append(append([]F{}, base...), ins1, ins2)
				inserted = append(inserted, ins1, ins2)
				e.H.SetPlan(tag, &rt.RespPlan{Panic: true})
				e.P.Write(rt.Concat(rt.HeaderFrames(sid, enc(fs, choicesFor(fs)), nil, -1, nil, true)))
			case "response-read-error":
				// the handler's own side goes wrong: its streamed response body fails on the first read, part way through the first
				// frame, or after several frames (the stream is then reset by the server with a response half sent)
				fs := append(append([]F{}, base...), ins1, ins2)
				inserted = append(inserted, ins1, ins2)
				total := []int{10, 3000, 40000}[rng.Intn(3)]
				at := 1 + rng.Intn(total)
				e.H.SetPlan(tag, &rt.RespPlan{Status: 200, Body: make([]byte, total), Stream: 1 + rng.Intn(2), ReadChunk: []int{0, 1, 700}[rng.Intn(3)], ReadErrAfter: at})
				out := rt.Concat(rt.HeaderFrames(sid, enc(fs, choicesFor(fs)), nil, -1, nil, true))
				e.P.Write(out)
				rt.Wait()
				if inflight {
					e.P.Write(append(rt.WindowUpdate(sid, 1000), rt.Priority(sid, 0, false, 3)...))
				}
				r.Mark("response_read_error_points", fmt.Sprintf("total=%d/at<=%d", total, []int{1, 10, 3000, 16384, 40000}[func() int {
					for i, b := range []int{1, 10, 3000, 16384, 40000} {
						if at <= b {
							return i
						}
					}
					return 4
				}()]))
				serverResets = true
				offenderStreams = append(offenderStreams, sid)
			case "window-overflow":
				fs := append(append([]F{}, base...), ins1, ins2)
				inserted = append(inserted, ins1, ins2)
				out := rt.Concat(rt.HeaderFrames(sid, enc(fs, choicesFor(fs)), nil, -1, nil, false))
				out = append(out, rt.WindowUpdate(sid, 1<<31-1)...)
				if inflight {
					out = append(out, data(10, true)...)
					triggers = append(triggers, "seq.frameAfterStreamErrorOnSameStream")
				}
				e.P.Write(out)
				serverResets = true
			case "cl-mismatch":
				fs := append(append([]F{}, base...), ins1, F{Name: "content-length", Value: "77"}, ins2)
				inserted = append(inserted, ins1, ins2)
				out := rt.Concat(rt.HeaderFrames(sid, enc(fs, choicesFor(fs)), nil, -1, nil, false))
				if rng.Intn(2) == 0 {
					// the body ends in trailers, which is where the mismatch becomes final; the trailer block inserts a
					// table entry of its own and has to be decoded whatever becomes of the request
					ins3 := F{Name: fmt.Sprintf("x-ins-c-%d", oi), Value: "trailer-" + randToken(rng, 8, customNameAlphabet)}
					out = append(out, data(70, false)...)
					tb := enc([]F{ins3, {Name: "x-trailer-plain", Value: "1"}}, []hpackref.Choice{incr, lit})
					var splits []int
					if rng.Intn(2) == 0 {
						splits = []int{1 + rng.Intn(len(tb)-1)}
					}
					out = append(out, rt.Concat(rt.HeaderFrames(sid, tb, splits, -1, nil, true))...)
					inserted = append(inserted, ins3)
					triggers = append(triggers, "hpack.blockAbandonedAfterMalformedField")
				} else {
					out = append(out, data(70, true)...)
				}
				if inflight {
					out = append(out, rt.WindowUpdate(sid, 10)...)
				}
				e.P.Write(out)
				serverResets = true
			}
			_ = serverResets
			// a well-formed stream concurrent with the offence
			if rng.Intn(2) == 0 {
				sendGood(newGood(nil))
			}
			rt.Wait()
			r.Mark("offences", kind+fmt.Sprintf("/inflight=%v", inflight))
		}
		rt.Wait()
		for i := 0; i < nAfter; i++ {
			var extra []F
			for _, f := range inserted {
				if rng.Intn(3) != 0 {
					extra = append(extra, f)
				}
			}
			sendGood(newGood(extra))
			rt.Wait()
		}
		// credit for large responses of good streams
		for iter := 0; iter < 6; iter++ {
			var out []byte
			fsNow := e.P.Frames()
			for _, q := range good {
				// a conforming peer only grants credit on streams it is still receiving on
				ended := false
				for _, f := range rt.FramesFor(fsNow, q.Stream) {
					ended = ended || f.EndStream || f.Type == wire.TRstStream
				}
				if !ended {
					out = append(out, rt.WindowUpdate(q.Stream, 100000)...)
				}
			}
			out = append(out, rt.WindowUpdate(0, 300000)...)
			e.P.Write(out)
			rt.Wait()
		}
		fs := e.P.Frames()
		for _, f := range fs {
			if f.Type == wire.TGoAway {
				fail("connection-torn-down", fmt.Sprintf("after stream-scoped offences %v (frames in flight after reset: %v) the server sent %s", offKinds, inflight, f))
			}
		}
		recs, _, _, _ := e.H.Snapshot()
		ran := map[string]int{}
		byTag := map[string]rt.ReqRec{}
		for _, rc := range recs {
			ran[rc.Tag]++
			byTag[rc.Tag] = rc
		}
		for _, q := range good {
			if ran[q.Tag] != 1 {
				fail("other-stream-not-served", fmt.Sprintf("well-formed request %s (stream %d) ran %d times after offences %v; frames on it:%s", q.Tag, q.Stream, ran[q.Tag], offKinds, frameSummary(rt.FramesFor(fs, q.Stream))))
				continue
			}
			if d := checkRequestSeen(q, byTag[q.Tag]); d != "" {
				fail("other-stream-request-corrupted", fmt.Sprintf("request %s after offences %v: handler saw %s", q.Tag, offKinds, d))
			}
			if d := checkResponse(q, rt.FramesFor(fs, q.Stream)); d != "" {
				fail("other-stream-response-corrupted", fmt.Sprintf("response %s after offences %v: %s", q.Tag, offKinds, d))
			}
		}
		for _, sid := range offenderStreams {
			ff := rt.FramesFor(fs, sid)
			switch {
			case len(ff) > 0 && ff[len(ff)-1].Type == wire.TRstStream:
				r.Inc("failed_response_reset", 1)
			case len(ff) > 0 && ff[len(ff)-1].EndStream:
				r.Inc("failed_response_ended_with_end_stream", 1)
			default:
				r.Inc("failed_response_left_open", 1)
			}
		}
		r.Inc("good_streams_checked", int64(len(good)))
		e.Finish()
	})
	c01Outcome(r, id, res, triggers, replay, "C09")
	r.Eval(vf.Hash(offKinds, inflight, nBefore, nAfter, longHistory), true)
	if r.WantSample() {
		r.Sample(replay)
	}
}
