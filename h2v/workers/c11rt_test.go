package workers

import (
	"fmt"
	"math/rand"
	"sync"
	"testing"
	"time"

	http2 "github.com/dgrr/http2"
	"github.com/valyala/fasthttp"

	"h2v/rt"
	"h2v/vf"
	"h2v/wire"
)

type rtCall struct {
	body  []byte // what the caller's request carries
	tag   string
	done  bool
	retry bool
	err   error
	res   *fasthttp.Response
}

// c11RoundTrip: HostClient + ConfigureClient over TLS against scripted servers; at-most-once delivery and honest "retry".
func c11RoundTrip(r *vf.Run, t *testing.T, id string, rng *rand.Rand) {
	n := 1 + rng.Intn(6)
	fault := []string{"goaway", "goaway", "refused", "rst", "conn-loss", "silence", "none"}[rng.Intn(7)]
	replay := map[string]any{"level": "roundtrip", "callers": n, "fault": fault}
	failed := false
	fail := func(rule, detail string) {
		if !failed {
			r.Fail("C11."+rule, id, detail, nil, replay)
		}
		failed = true
	}
	res := rt.RunBubble(t, id, 90*time.Second, func() {
		// the first connection's server may keep its stream windows small, so that uploads are part way through (and stuck)
		// when the fault comes; every later connection is generous
		win0 := uint32([]int{1 << 20, 1 << 20, 1000, 0}[rng.Intn(4)])
		replay["first_connection_stream_window"] = win0
		env, err := rt.NewRTEnv(id, http2.ClientOpts{MaxResponseTime: 30 * time.Second}, []wire.Setting{{ID: 3, Val: 100}, {ID: 4, Val: win0}})
		if err != nil {
			fail("configure-client", err.Error())
			return
		}
		defer env.Close()
		env.Settings = []wire.Setting{{ID: 3, Val: 100}, {ID: 4, Val: 1 << 20}}
		var mu sync.Mutex
		calls := make([]*rtCall, n)
		methods := []string{"GET", "POST", "PUT", "DELETE"}
		for i := 0; i < n; i++ {
			c := &rtCall{tag: fmt.Sprintf("%s.%d", id, i), res: &fasthttp.Response{}}
			calls[i] = c
			m := methods[rng.Intn(len(methods))]
			body := rng.Intn(2) == 0
			mode := rng.Intn(4) // 0, 1: buffered; 2: streamed, declared length; 3: streamed, unknown length
			chunk := []int{0, 100, 700}[rng.Intn(3)]
			if body && m != "GET" {
				c.body = []byte("payload of " + c.tag)
				if rng.Intn(2) == 0 {
					c.body = append(c.body, make([]byte, 1500+rng.Intn(6000))...)
					rng.Read(c.body[len("payload of "+c.tag):])
				}
			}
			go func() {
				req := &fasthttp.Request{}
				req.SetRequestURI("https://h2v.example/" + c.tag)
				req.Header.SetMethod(m)
				req.Header.Add("x-vtag", c.tag)
				switch {
				case c.body == nil:
				case mode == 2:
					req.SetBodyStream(&slowReader{b: c.body, chunk: chunk}, len(c.body))
				case mode == 3:
					req.SetBodyStream(&slowReader{b: c.body, chunk: chunk}, -1)
				default:
					req.SetBody(c.body)
				}
				retry, err := env.Client.RoundTrip(env.HC, req, c.res)
				mu.Lock()
				c.done, c.retry, c.err = true, retry, err
				mu.Unlock()
			}()
		}
		rt.Wait()
		conns := env.Conns()
		if len(conns) == 0 {
			fail("no-connection", "no connection reached the scripted server")
			return
		}
		c0 := conns[0]
		disclaimed := map[string]bool{} // tag arrivals on connection 0 that the server disclaimed
		answered := map[string]bool{}   // "conn/stream" already answered or reset
		answer := func(c *rt.RTConn, s *rt.SeenRequest) {
			key := fmt.Sprintf("%d/%d", c.Index, s.Stream)
			if answered[key] || s.EndStream == 0 {
				return
			}
			answered[key] = true
			tag, _ := s.Get("x-vtag")
			blk := c.P.EncodeBlock([]F{{Name: ":status", Value: "200"}, {Name: "x-rtag", Value: tag}, {Name: "x-conn", Value: fmt.Sprint(c.Index)}}, nil)
			out := rt.Concat(rt.HeaderFrames(s.Stream, blk, nil, -1, nil, false))
			out = append(out, rt.Concat(rt.DataFrames(s.Stream, []byte("body for "+tag), nil, nil, true))...)
			c.P.Write(out)
		}
		seen0 := rt.SeenOn(c0.P)
		// grant lets the uploads on the given streams of connection 0 finish, and returns the requests as they then stand
		grant := func(upTo uint32) []*rt.SeenRequest {
			out := rt.WindowUpdate(0, 1<<24)
			for _, s := range seen0 {
				if s.Stream <= upTo && s.EndStream == 0 {
					out = append(out, rt.WindowUpdate(s.Stream, 1<<20)...)
				}
			}
			c0.P.Write(out)
			rt.Wait()
			return rt.SeenOn(c0.P)
		}
		perm := rng.Perm(len(seen0))
		subset := perm[:rng.Intn(len(perm)+1)]
		inSubset := map[int]bool{}
		for _, i := range subset {
			inSubset[i] = true
		}
		switch fault {
		case "goaway":
			var last uint32
			if len(seen0) > 0 {
				last = []uint32{0, seen0[rng.Intn(len(seen0))].Stream, seen0[len(seen0)-1].Stream, 1<<31 - 1}[rng.Intn(4)]
			}
			replay["last_stream_id"] = last
			if rng.Intn(3) == 0 {
				c0.P.Write(rt.GoAway(1<<31-1, 0, "shutting down")) // graceful shutdown: the real last-stream-id follows
				if rng.Intn(2) == 0 {
					rt.Wait()
				}
				replay["graceful_first_goaway"] = true
			}
			c0.P.Write(append(rt.GoAway(last, uint32([]int{0, 1, 11}[rng.Intn(3)]), "bye"), rt.Ping(false, "afterGA!")...))
			rt.Wait()
			seen0 = grant(last) // the streams the server still stands by may finish their uploads
			for i, s := range seen0 {
				tag, _ := s.Get("x-vtag")
				if s.Stream > last {
					disclaimed[tag] = true
					answered[fmt.Sprintf("0/%d", s.Stream)] = true
				} else if inSubset[i] || rng.Intn(2) == 0 {
					answer(c0, s)
				}
			}
			if rng.Intn(3) == 0 {
				// ... and then the connection is lost with some of the streams the server stood by still unanswered: those were
				// not disclaimed, the server may have processed them, they must not go out again
				rt.Wait()
				if rng.Intn(2) == 0 {
					c0.Raw.Close()
				} else {
					c0.Raw.Reset()
				}
				replay["connection_lost_after_goaway"] = true
			}
		case "refused":
			seen0 = grant(1<<31 - 1)
			for i, s := range seen0 {
				tag, _ := s.Get("x-vtag")
				if inSubset[i] {
					c0.P.Write(rt.RstStream(s.Stream, 7))
					disclaimed[tag] = true
					answered[fmt.Sprintf("0/%d", s.Stream)] = true
				} else {
					answer(c0, s)
				}
			}
		case "rst":
			seen0 = grant(1<<31 - 1)
			for i, s := range seen0 {
				if inSubset[i] {
					c0.P.Write(rt.RstStream(s.Stream, uint32([]int{2, 8, 11}[rng.Intn(3)])))
					answered[fmt.Sprintf("0/%d", s.Stream)] = true
				} else {
					answer(c0, s)
				}
			}
		case "conn-loss":
			seen0 = grant(1<<31 - 1)
			for i, s := range seen0 {
				if inSubset[i] {
					answer(c0, s)
				}
			}
			rt.Wait()
			if rng.Intn(2) == 0 {
				c0.Raw.Close()
			} else {
				c0.Raw.Reset()
			}
		case "silence":
			seen0 = grant(1<<31 - 1)
			for i, s := range seen0 {
				if inSubset[i] {
					answer(c0, s)
				}
			}
		case "none":
			seen0 = grant(1<<31 - 1)
			for _, s := range seen0 {
				answer(c0, s)
			}
		}
		// every other connection the client dials behaves
		for round := 0; round < 6; round++ {
			rt.Wait()
			for _, c := range env.Conns() {
				if c.Index == 0 {
					continue
				}
				for _, s := range rt.SeenOn(c.P) {
					answer(c, s)
				}
			}
		}
		time.Sleep(35 * time.Second)
		rt.Wait()
		for _, c := range env.Conns() {
			if c.Index != 0 {
				for _, s := range rt.SeenOn(c.P) {
					answer(c, s)
				}
			}
		}
		rt.Wait()
		// arrivals per tag, in connection order
		arrivals := map[string][]string{}
		bodies := map[string][]byte{}
		for _, c := range calls {
			bodies[c.tag] = c.body
		}
		for _, c := range env.Conns() {
			for _, s := range rt.SeenOn(c.P) {
				tag, _ := s.Get("x-vtag")
				arrivals[tag] = append(arrivals[tag], fmt.Sprintf("conn %d stream %d", c.Index, s.Stream))
				// a request that arrives complete (END_STREAM seen) must be the request the caller made, on whichever connection and
				// at whichever attempt: a re-sent request is still that request
				if want, known := bodies[tag]; known && s.EndStream != 0 && string(s.Body) != string(want) {
					fail("request-arrived-changed", fmt.Sprintf("fault %s: request %s arrived complete on connection %d stream %d (arrival #%d) with a body of %d bytes, the caller's request has %d bytes (content-length field: %q)", fault, tag, c.Index, s.Stream, len(arrivals[tag]), len(s.Body), len(want), func() string { v, _ := s.Get("content-length"); return v }()))
				}
			}
		}
		mu.Lock()
		defer mu.Unlock()
		for _, c := range calls {
			arr := arrivals[c.tag]
			if len(arr) > 1 && !disclaimed[c.tag] {
				fail("request-sent-twice", fmt.Sprintf("fault %s: the HEADERS of request %s reached a server %d times (%v) although the first arrival was never disclaimed by GOAWAY or REFUSED_STREAM", fault, c.tag, len(arr), arr))
			}
			if len(arr) > 2 {
				fail("request-sent-twice", fmt.Sprintf("fault %s: request %s reached servers %d times (%v); only the first arrival was disclaimed", fault, c.tag, len(arr), arr))
			}
			if !c.done {
				fail("caller-not-resolved", fmt.Sprintf("fault %s: RoundTrip for %s has not returned 35 virtual seconds later (MaxResponseTime is 30 s)", fault, c.tag))
				continue
			}
			if c.retry && len(arr) > 0 && !disclaimed[c.tag] {
				fail("retry-claimed-for-processed-request", fmt.Sprintf("fault %s: RoundTrip for %s returned retry=true (err %v) although its HEADERS reached the server (%v) and were not disclaimed", fault, c.tag, c.err, arr))
			}
			if c.err == nil {
				if got := string(c.res.Header.Peek("x-rtag")); got != c.tag || string(c.res.Body()) != "body for "+c.tag {
					fail("wrong-response", fmt.Sprintf("RoundTrip for %s succeeded with the response tagged %q, body %q", c.tag, got, c.res.Body()))
				}
			}
		}
		r.Inc("roundtrip_calls", int64(n))
		r.Inc("connections_dialled", int64(len(env.Conns())))
	})
	switch {
	case res.TimedOut && len(res.MutexStuck) > 0:
		fail("deadlock", "goroutines of the client were waiting for a mutex when the watchdog fired")
	case res.TimedOut:
		r.Inconclusive("real-time watchdog expired inside a bubble")
	case res.Panic != "":
		fail("panic", res.Panic+"\n"+res.PanicStack)
	}
	r.Eval(vf.Hash("rt", n, fault), true)
	if r.WantSample() {
		r.Sample(replay)
	}
}
