package workers

import (
	"math/rand"
	"testing"

	"h2v/vf"
)

// c11RoundTrip: placeholder until the TLS environment is wired in (falls back to a connection-level scenario).
func c11RoundTrip(r *vf.Run, t *testing.T, id string, rng *rand.Rand) {
	c11Conn(r, t, id, rng)
}
