package workers

import (
	randv2 "math/rand/v2"
	"bytes"
	"fmt"
	"io"
	"math/rand"
	"runtime"
	"strings"
	"sync"
	"sync/atomic"
	"testing"
	"time"

	http2 "github.com/dgrr/http2"
	"github.com/valyala/fasthttp"
	xh2 "golang.org/x/net/http2"
	"golang.org/x/net/http2/hpack"

	"h2v/fakeconn"
	"h2v/hpackref"
	"h2v/pooltrack"
	"h2v/rt"
	"h2v/vf"
	"h2v/wire"
)

// C19 runs outside synctest bubbles: real scheduler, real time, -race build. Verdicts never depend on wall-clock
// deadlines: a watchdog that fires is inconclusive.

type c19Stats struct {
	conns, requests, responsesChecked, settings, rst, cancels, closes, sitesHit, rtErrors, rtCalls atomic.Int64
	interleavings                                                                sync.Map
}

func c19Jitter(stats *c19Stats, seq *atomic.Uint64, trace *[]byte, tmu *sync.Mutex) func(string) {
	return func(site string) {
		stats.sitesHit.Add(1)
		n := seq.Add(1)
		switch n % 7 {
		case 0:
			runtime.Gosched()
		case 1:
			runtime.Gosched()
			runtime.Gosched()
		case 3:
			time.Sleep(time.Duration(n%50) * time.Microsecond)
		}
		tmu.Lock()
		if len(*trace) < 4096 {
			*trace = append(*trace, site[len(site)-3], byte(n))
		}
		tmu.Unlock()
	}
}

// c19BareJitter perturbs without touching anything shared (the runtime's per-thread generator).
func c19BareJitter(site string) {
	switch n := randv2.Uint32(); n % 7 {
	case 0:
		runtime.Gosched()
	case 1:
		runtime.Gosched()
		runtime.Gosched()
	case 3:
		time.Sleep(time.Duration(n>>8%50) * time.Microsecond)
	}
}

func TestC19(t *testing.T) {
	r := vf.Begin(t, "C19")
	defer r.End()
	r.Describe("real-time stress under the Go race detector (worker built with -race, GOMAXPROCS varied per shard, Gosched/microsecond jitter at 16 perturbation points, hook H5), outside synctest. Server role: connections driven by concurrent scripted peers mixing requests (buffered and streamed responses, uploads), SETTINGS changes (table size, initial window, frame size) during responses, RST_STREAM storms, PRIORITY, PINGs, 2 ms server pings, read/idle timeouts of a few ms, and disconnects at PRNG moments. "+
		"Client role: connections with 2-12 concurrent callers (bodies, streamed bodies), Cancel and Close at PRNG moments, against scripted servers that change SETTINGS during uploads, reset streams, send GOAWAY and disconnect; plus Client.Close under load at RoundTrip level over TLS. "+
		"Monitors: every race report with a dgrr/http2 frame (parsed from GORACE logs by the driver, deduplicated by the innermost dgrr/http2 function pair); online pool-ownership tracker (hook H1) on every frame, frame header, header field, stream, request context and HPACK object: release of a free object = double release, acquire of a held object = two owners; integrity of every completed exchange (unique tags). "+
		"Distinct = distinct hashes of the order in which goroutines passed the perturbation points.",
		"the Go race detector reports only races it observes on the executed schedules", "wall-clock watchdogs are inconclusive, never a verdict")
	trk := pooltrack.New()
	trk.Stacks = r.Only != ""
	trk.Install()
	defer pooltrack.Uninstall()
	var stats c19Stats
	var seq atomic.Uint64
	rounds := r.Pick(24, 400)
	// The monitors synchronise: the pool tracker takes one mutex at every acquire and release, the jitter hook bumps one
	// atomic counter at every perturbation point, and to the race detector each of these is a happens-before edge between
	// the library's goroutines that the library itself does not have (a release by the write loop followed by an acquire
	// in Close orders everything the write loop did before). So the odd rounds are "bare": no pool tracker, and a jitter
	// hook without shared state. They run after the tracked ones, the tracker is not installed again.
	var order []int
	for i := 0; i < rounds; i += 2 {
		order = append(order, i)
	}
	for i := 1; i < rounds; i += 2 {
		order = append(order, i)
	}
	for _, i := range order {
		id := fmt.Sprintf("z%d", i)
		if !r.Want(i, id) {
			continue
		}
		r.Progress(id, "")
		rng := r.Rand(id)
		var trace []byte
		var tmu sync.Mutex
		bare := i%2 == 1
		if bare {
			pooltrack.Uninstall()
			http2.VerifSetPointHook(c19BareJitter)
			r.Inc("bare_rounds(no monitor synchronisation)", 1)
		} else {
			http2.VerifSetPointHook(c19Jitter(&stats, &seq, &trace, &tmu))
		}
		var wg sync.WaitGroup
		var fails sync.Map
		nconn := 4 + rng.Intn(6)
		for c := 0; c < nconn; c++ {
			seed := rng.Int63()
			kind := c % 4
			wg.Add(1)
			go func(c int) {
				defer wg.Done()
				lr := rand.New(rand.NewSource(seed))
				var msg string
				switch kind {
				case 0, 1:
					msg = c19Server(lr, fmt.Sprintf("%s.s%d", id, c), &stats)
				case 2:
					msg = c19Client(lr, fmt.Sprintf("%s.c%d", id, c), &stats)
				case 3:
					msg = c19RoundTrip(lr, fmt.Sprintf("%s.r%d", id, c), &stats)
				}
				if msg != "" {
					fails.Store(c, msg)
				}
			}(c)
		}
		done := make(chan struct{})
		go func() { wg.Wait(); close(done) }()
		select {
		case <-done:
		case <-time.After(120 * time.Second):
			r.Inconclusive("a stress round did not finish within the wall-clock watchdog")
		}
		http2.VerifSetPointHook(nil)
		fails.Range(func(k, v any) bool {
			r.Fail("C19.integrity", id, v.(string), nil, map[string]any{"round": id})
			return true
		})
		for _, ev := range trk.Drain() {
			r.Fail("C19.pool-"+ev.What, id, fmt.Sprintf("%s of %s %s\n  now:  %s\n  prev: %s", ev.What, ev.Kind, ev.Obj, ev.Stack, ev.Prev), nil, map[string]any{"round": id})
		}
		tmu.Lock()
		h := vf.Hash(string(trace))
		passed := len(trace) / 2
		tmu.Unlock()
		if bare {
			h = vf.Hash("bare/" + id)
		}
		r.Eval(h, true)
		if r.WantSample() {
			r.Sample(map[string]any{"round": id, "connections": nconn, "perturbation_points_passed": passed})
		}
	}
	acq, rel, objs := trk.Counts()
	r.Inc("pool_acquire_events", acq)
	r.Inc("pool_release_events", rel)
	r.Max("max.pool_objects_tracked", int64(objs))
	r.Inc("connections", stats.conns.Load())
	r.Inc("requests_started", stats.requests.Load())
	r.Inc("responses_checked", stats.responsesChecked.Load())
	r.Inc("settings_changes", stats.settings.Load())
	r.Inc("rst_stream_sent", stats.rst.Load())
	r.Inc("cancels", stats.cancels.Load())
	r.Inc("closes", stats.closes.Load())
	stats.interleavings.Range(func(k, v any) bool { r.Inc("roundtrip_error:"+k.(string)[6:], v.(*atomic.Int64).Load()); return true })
	r.Inc("roundtrip_calls_over_tls", stats.rtCalls.Load())
	r.Inc("roundtrip_calls_ending_in_error(timeouts, resets, goaway, disconnects)", stats.rtErrors.Load())
	r.Inc("perturbation_points_passed", stats.sitesHit.Load())
}

type quietLog struct{}

func (quietLog) Printf(string, ...any) {}

// c19Server: one server connection under a hostile-but-conforming scripted client in real time.
func c19Server(rng *rand.Rand, id string, stats *c19Stats) string {
	stats.conns.Add(1)
	sut, peer := fakeconn.Pair(64<<10, 64<<10)
	var bodies sync.Map
	handler := func(ctx *fasthttp.RequestCtx) {
		tag := string(ctx.Request.Header.Peek("x-vtag"))
		n := len(tag) * 37 % 5000
		if strings.HasSuffix(tag, "7") {
			n = 40000
		}
		body := bytes.Repeat([]byte(tag+"|"), n/len(tag+"|")+1)
		bodies.Store(tag, len(body))
		if strings.HasSuffix(tag, "3") {
			time.Sleep(time.Duration(len(tag)%3) * 100 * time.Microsecond)
		}
		ctx.Response.Header.Set("x-rtag", tag)
		if strings.HasSuffix(tag, "5") {
			ctx.Response.SetBodyStream(bytes.NewReader(body), -1)
		} else {
			ctx.Response.SetBody(body)
		}
	}
	fs := &fasthttp.Server{Handler: handler, Logger: quietLog{}, ReadTimeout: time.Duration(5+rng.Intn(30)) * time.Millisecond, IdleTimeout: time.Duration(20+rng.Intn(200)) * time.Millisecond}
	srv := http2.ConfigureServer(fs, http2.ServerConfig{PingInterval: 2 * time.Millisecond, MaxConcurrentStreams: 4 + rng.Intn(20)})
	served := make(chan struct{})
	go func() { srv.ServeConn(sut); close(served) }()
	// reader: integrity of whatever completes
	var failMsg atomic.Value
	readerDone := make(chan struct{})
	go func() {
		defer close(readerDone)
		fr := xh2.NewFramer(io.Discard, peer)
		fr.SetMaxReadFrameSize(1<<24 - 1)
		dec := hpack.NewDecoder(65536, nil)
		dec.SetAllowedMaxDynamicTableSize(1 << 20)
		got := map[uint32]*bytes.Buffer{}
		tags := map[uint32]string{}
		var blk []byte
		for {
			f, err := fr.ReadFrame()
			if err != nil {
				return
			}
			switch x := f.(type) {
			case *xh2.HeadersFrame, *xh2.ContinuationFrame:
				var frag []byte
				var end bool
				if h, ok := x.(*xh2.HeadersFrame); ok {
					frag, end = h.HeaderBlockFragment(), h.HeadersEnded()
				} else {
					c := x.(*xh2.ContinuationFrame)
					frag, end = c.HeaderBlockFragment(), c.HeadersEnded()
				}
				blk = append(blk, frag...)
				if end {
					fields, err := dec.DecodeFull(blk)
					blk = nil
					if err != nil {
						failMsg.Store(fmt.Sprintf("%s: response header block on stream %d does not decode: %v", id, f.Header().StreamID, err))
						return
					}
					for _, hf := range fields {
						if hf.Name == "x-rtag" {
							tags[f.Header().StreamID] = hf.Value
							got[f.Header().StreamID] = &bytes.Buffer{}
						}
					}
				}
			case *xh2.DataFrame:
				sid := x.Header().StreamID
				if b := got[sid]; b != nil {
					b.Write(x.Data())
					if x.StreamEnded() {
						tag := tags[sid]
						want := bytes.Repeat([]byte(tag+"|"), 1)
						if !bytes.HasPrefix(b.Bytes(), want) || bytes.Count(b.Bytes(), []byte(tag+"|"))*len(tag+"|") != b.Len() {
							failMsg.Store(fmt.Sprintf("%s: response body on stream %d (tag %s, %d bytes) is not a repetition of its own tag: another stream's bytes were mixed in", id, sid, tag, b.Len()))
						} else if n, ok := bodies.Load(tag); ok && n.(int) != b.Len() {
							failMsg.Store(fmt.Sprintf("%s: response body on stream %d has %d bytes, the handler produced %d", id, sid, b.Len(), n.(int)))
						}
						stats.responsesChecked.Add(1)
						delete(got, sid)
					}
				}
			}
		}
	}()
	// writer
	enc := hpackref.NewEnc(4096)
	w := func(b []byte) bool { _, err := peer.Write(b); return err == nil }
	w(append([]byte(wire.Preface), rt.SettingsFrame(wire.Setting{ID: 4, Val: 1 << 20})...))
	w(rt.WindowUpdate(0, 1<<30))
	next := uint32(1)
	ops := 30 + rng.Intn(120)
	for i := 0; i < ops; i++ {
		var ok bool
		switch rng.Intn(12) {
		case 0, 1, 2, 3, 4:
			tag := fmt.Sprintf("%s.%d", id, next)
			var blk []byte
			for _, f := range []F{{Name: ":method", Value: "POST"}, {Name: ":scheme", Value: "https"}, {Name: ":path", Value: "/" + tag}, {Name: ":authority", Value: "r.example"}, {Name: "x-vtag", Value: tag}} {
				blk, _ = enc.Field(blk, f, hpackref.Choice{Rep: rng.Intn(3), NameIndex: true, HuffValue: rng.Intn(2) == 0})
			}
			hasBody := rng.Intn(2) == 0
			out := rt.Concat(rt.HeaderFrames(next, blk, nil, -1, nil, !hasBody))
			if hasBody {
				out = append(out, rt.Concat(rt.DataFrames(next, make([]byte, rng.Intn(20000)), []int{16384, 1000}, nil, rng.Intn(8) != 0))...)
			}
			ok = w(out)
			next += 2
			stats.requests.Add(1)
		case 5:
			ok = w(rt.SettingsFrame([]wire.Setting{{ID: 1, Val: []uint32{0, 100, 4096, 16384}[rng.Intn(4)]}, {ID: 4, Val: []uint32{0, 1000, 65535, 1 << 20}[rng.Intn(4)]}, {ID: 5, Val: []uint32{16384, 65536}[rng.Intn(2)]}}[rng.Intn(3)]))
			stats.settings.Add(1)
		case 6:
			if next > 1 {
				ok = w(rt.RstStream(next-2, 8))
				stats.rst.Add(1)
			} else {
				ok = true
			}
		case 7:
			ok = w(rt.Ping(false, "c19ping!"))
		case 8:
			ok = w(rt.Priority(next, 0, false, 3))
		case 9:
			if next > 1 {
				ok = w(rt.WindowUpdate(uint32(1+2*rng.Intn(int(next)/2)), uint32(1+rng.Intn(5000))))
			} else {
				ok = true
			}
		case 10:
			time.Sleep(time.Duration(rng.Intn(3000)) * time.Microsecond)
			ok = true
		case 11:
			ok = w(rt.WindowUpdate(0, uint32(1+rng.Intn(100000))))
		}
		if !ok {
			break
		}
	}
	time.Sleep(time.Duration(rng.Intn(5000)) * time.Microsecond)
	if rng.Intn(2) == 0 {
		peer.Close()
	} else {
		peer.Reset()
	}
	stats.closes.Add(1)
	select {
	case <-served:
	case <-time.After(30 * time.Second):
	}
	<-readerDone
	if m, ok := failMsg.Load().(string); ok {
		return m
	}
	return ""
}

// c19Client: one client connection with concurrent callers against a scripted server, in real time.
func c19Client(rng *rand.Rand, id string, stats *c19Stats) string {
	stats.conns.Add(1)
	sut, peer := fakeconn.Pair(64<<10, 64<<10)
	var wmu sync.Mutex
	w := func(b []byte) bool { wmu.Lock(); defer wmu.Unlock(); _, err := peer.Write(b); return err == nil }
	enc := hpackref.NewEnc(4096)
	var encMu sync.Mutex
	w(rt.SettingsFrame(wire.Setting{ID: 4, Val: uint32([]int{1000, 65535, 1 << 20}[rng.Intn(3)])}, wire.Setting{ID: 3, Val: 50}))
	c := http2.NewConn(sut, http2.ConnOpts{PingInterval: 3 * time.Millisecond, DisablePingChecking: rng.Intn(2) == 0})
	if err := c.Handshake(); err != nil {
		return ""
	}
	srvSeed := rng.Int63()
	serverDone := make(chan struct{})
	go func() { // scripted server
		defer close(serverDone)
		lr := rand.New(rand.NewSource(srvSeed))
		buf := make([]byte, len(wire.Preface))
		if _, err := io.ReadFull(peer, buf); err != nil {
			return
		}
		fr := xh2.NewFramer(io.Discard, peer)
		fr.SetMaxReadFrameSize(1<<24 - 1)
		dec := hpack.NewDecoder(65536, nil)
		dec.SetAllowedMaxDynamicTableSize(1 << 20)
		tags := map[uint32]string{}
		var blk []byte
		answer := func(sid uint32) {
			tag := tags[sid]
			if tag == "" {
				return
			}
			delete(tags, sid)
			if lr.Intn(15) == 0 {
				w(rt.RstStream(sid, uint32([]int{2, 7, 8}[lr.Intn(3)])))
				return
			}
			encMu.Lock()
			var hb []byte
			for _, f := range []F{{Name: ":status", Value: "200"}, {Name: "x-rtag", Value: tag}} {
				hb, _ = enc.Field(hb, f, hpackref.Choice{Rep: lr.Intn(3), NameIndex: true})
			}
			out := rt.Concat(rt.HeaderFrames(sid, hb, []int{lr.Intn(len(hb) + 1)}, -1, nil, false))
			encMu.Unlock()
			body := bytes.Repeat([]byte(tag+"|"), 1+lr.Intn(300))
			out = append(out, rt.Concat(rt.DataFrames(sid, body, []int{16384, 100 + lr.Intn(5000)}, []int{-1, lr.Intn(50)}, true))...)
			w(out)
		}
		for {
			f, err := fr.ReadFrame()
			if err != nil {
				return
			}
			switch x := f.(type) {
			case *xh2.PingFrame:
				if !x.IsAck() {
					w(wire.Frame(nil, wire.TPing, wire.FAck, 0, x.Data[:], -1))
				}
			case *xh2.SettingsFrame:
				if !x.IsAck() {
					w(rt.SettingsAck())
				}
			case *xh2.HeadersFrame:
				blk = append(blk[:0], x.HeaderBlockFragment()...)
				if x.HeadersEnded() {
					fields, err := dec.DecodeFull(blk)
					if err != nil {
						return
					}
					for _, hf := range fields {
						if hf.Name == "x-vtag" {
							tags[x.StreamID] = hf.Value
						}
					}
					if x.StreamEnded() {
						answer(x.StreamID)
					}
				}
			case *xh2.ContinuationFrame:
				blk = append(blk, x.HeaderBlockFragment()...)
			case *xh2.DataFrame:
				w(append(rt.WindowUpdate(x.StreamID, uint32(len(x.Data())+1)), rt.WindowUpdate(0, uint32(len(x.Data())+1))...))
				if x.StreamEnded() {
					answer(x.StreamID)
				}
			}
			if lr.Intn(10) == 0 {
				// the header table size goes up and down while the callers' requests are being encoded
				w(rt.SettingsFrame(wire.Setting{ID: 1, Val: uint32([]int{0, 64, 256, 4096}[lr.Intn(4)])}))
				stats.settings.Add(1)
			}
			switch lr.Intn(40) {
			case 0:
				w(rt.SettingsFrame([]wire.Setting{{ID: 4, Val: uint32([]int{0, 100, 65535, 1 << 20}[lr.Intn(4)])}, {ID: 1, Val: uint32([]int{0, 4096}[lr.Intn(2)])}, {ID: 5, Val: uint32([]int{16384, 32768}[lr.Intn(2)])}, {ID: 3, Val: uint32(1 + lr.Intn(100))}}[lr.Intn(4)]))
				stats.settings.Add(1)
			case 1:
				w(rt.SettingsFrame(wire.Setting{ID: 4, Val: 1 << 20}))
			case 2:
				if lr.Intn(6) == 0 {
					w(rt.GoAway(uint32(lr.Intn(60)), 0, "bye"))
				}
			case 3:
				if lr.Intn(10) == 0 {
					peer.Close()
					return
				}
			}
		}
	}()
	ncallers := 2 + rng.Intn(11)
	var wg sync.WaitGroup
	var failMsg atomic.Value
	for k := 0; k < ncallers; k++ {
		seed := rng.Int63()
		wg.Add(1)
		go func(k int) {
			defer wg.Done()
			lr := rand.New(rand.NewSource(seed))
			for j := 0; j < 2+lr.Intn(6); j++ {
				tag := fmt.Sprintf("%s.%d.%d", id, k, j)
				req, res := &fasthttp.Request{}, &fasthttp.Response{}
				req.SetRequestURI("https://c.example/" + tag)
				req.Header.Add("x-vtag", tag)
				streamed := false
				switch lr.Intn(3) {
				case 1:
					req.Header.SetMethod("POST")
					req.SetBody(make([]byte, lr.Intn(40000)))
				case 2:
					req.Header.SetMethod("POST")
					if lr.Intn(2) == 0 {
						req.SetBodyStream(bytes.NewReader(make([]byte, lr.Intn(40000))), -1)
					} else { // many small reads, so that a Cancel or Close finds the write loop reading the body
						streamed = true
						req.SetBodyStream(&slowReader{b: make([]byte, lr.Intn(150000)), chunk: 1 + lr.Intn(2000)}, -1)
					}
				}
				ctx := &http2.Ctx{Request: req, Response: res, Err: make(chan error, 1)}
				stats.requests.Add(1)
				c.Write(ctx)
				if lr.Intn(6) == 0 || (streamed && lr.Intn(2) == 0) {
					time.Sleep(time.Duration(lr.Intn(1500)) * time.Microsecond)
					c.Cancel(ctx)
					stats.cancels.Add(1)
				}
				select {
				case err := <-ctx.Err:
					if err == nil {
						tagGot := string(res.Header.Peek("x-rtag"))
						b := res.Body()
						if tagGot != tag || bytes.Count(b, []byte(tag+"|"))*len(tag+"|") != len(b) {
							failMsg.Store(fmt.Sprintf("%s: caller of %s got the response tagged %q with a %d-byte body that is not a repetition of its tag", id, tag, tagGot, len(b)))
						}
						stats.responsesChecked.Add(1)
					}
				case <-time.After(20 * time.Second):
					return
				}
			}
		}(k)
	}
	if rng.Intn(3) == 0 {
		closeAfter := time.Duration(rng.Intn(20000)) * time.Microsecond
		go func() {
			time.Sleep(closeAfter)
			c.Close()
			stats.closes.Add(1)
		}()
	}
	wg.Wait()
	if rng.Intn(4) != 0 {
		// an idle tail: nothing but the connection's own pings is written for a few intervals, so that the last thing the
		// write loop did before Close is a ping
		time.Sleep(time.Duration(4+rng.Intn(8)) * time.Millisecond)
	}
	c.Close()
	peer.Close()
	select {
	case <-serverDone:
	case <-time.After(20 * time.Second):
	}
	if m, ok := failMsg.Load().(string); ok {
		return m
	}
	return ""
}

// c19RoundTrip: HostClient + ConfigureClient over TLS in real time: concurrent callers that recycle their
// pooled Request/Response the moment RoundTrip returns, a MaxResponseTime of a few milliseconds, and a
// scripted server that answers at once, late, never, with RST_STREAM, with GOAWAY or by disconnecting.
func c19RoundTrip(rng *rand.Rand, id string, stats *c19Stats) string {
	stats.conns.Add(1)
	srvSeed := rng.Int63()
	var smu sync.Mutex
	lr := rand.New(rand.NewSource(srvSeed))
	roll := func(n int) int { smu.Lock(); defer smu.Unlock(); return lr.Intn(n) }
	tags := map[string]string{}
	var late sync.WaitGroup
	copts := http2.ClientOpts{MaxResponseTime: time.Duration(15+rng.Intn(60)) * time.Millisecond, PingInterval: 3 * time.Millisecond}
	csettings := []wire.Setting{{ID: 3, Val: uint32(2 + rng.Intn(60))}, {ID: 4, Val: 1 << 20}}
	// set before the first dial (ConfigureClient dials at once, and that connection's reader looks at OnFrame)
	onFrame := func(rc *rt.RTConn, f rt.Frame) {
		key := fmt.Sprintf("%d/%d", rc.Index, f.Stream)
		switch f.Type {
		case wire.THeaders, wire.TContinuation:
			if f.BlockDone {
				for _, x := range f.Fields {
					if x.Name == "x-vtag" {
						smu.Lock()
						tags[key] = x.Value
						smu.Unlock()
					}
				}
				if roll(6) == 0 {
					rc.P.Write(rt.SettingsFrame(wire.Setting{ID: 1, Val: uint32([]int{0, 64, 256, 4096}[roll(4)])}))
				}
			}
		case wire.TData:
			if f.Len > 0 {
				rc.P.Write(append(rt.WindowUpdate(0, uint32(f.Len)), rt.WindowUpdate(f.Stream, uint32(f.Len))...))
			}
		default:
			return
		}
		if !f.EndStream {
			return
		}
		smu.Lock()
		tag := tags[key]
		delete(tags, key)
		smu.Unlock()
		if tag == "" {
			return
		}
		answer := func() {
			blk := rc.P.EncodeBlock([]F{{Name: ":status", Value: "200"}, {Name: "x-rtag", Value: tag}}, nil)
			out := rt.Concat(rt.HeaderFrames(f.Stream, blk, nil, -1, nil, false))
			body := bytes.Repeat([]byte(tag+"|"), 1+roll(200))
			out = append(out, rt.Concat(rt.DataFrames(f.Stream, body, []int{16384, 100 + roll(5000)}, nil, true))...)
			rc.P.Write(out)
		}
		switch x := roll(100); {
		case x < 55:
			answer()
		case x < 80: // late: around the client's timeout
			d := time.Duration(roll(90000)) * time.Microsecond
			late.Add(1)
			go func() { defer late.Done(); time.Sleep(d); answer() }()
		case x < 88: // never
		case x < 93:
			rc.P.Write(rt.RstStream(f.Stream, uint32([]int{2, 7, 8}[roll(3)])))
		case x < 97:
			rc.P.Write(rt.GoAway(f.Stream, 0, "bye"))
			answer()
		default:
			rc.Raw.Close()
		}
	}
	e, err := rt.NewRTEnvWith(id, copts, csettings, func(env *rt.RTEnv) { env.OnFrame = onFrame })
	if err != nil {
		late.Wait()
		return ""
	}
	ncallers := 2 + rng.Intn(10)
	var wg sync.WaitGroup
	var failMsg atomic.Value
	for k := 0; k < ncallers; k++ {
		seed := rng.Int63()
		wg.Add(1)
		go func(k int) {
			defer wg.Done()
			cr := rand.New(rand.NewSource(seed))
			for j := 0; j < 3+cr.Intn(8); j++ {
				tag := fmt.Sprintf("%s.%d.%d", id, k, j)
				req, res := fasthttp.AcquireRequest(), fasthttp.AcquireResponse()
				req.SetRequestURI("https://h2v.example/" + tag)
				req.Header.Add("x-vtag", tag)
				switch cr.Intn(3) {
				case 1:
					req.Header.SetMethod("POST")
					req.SetBody(bytes.Repeat([]byte{byte(k)}, cr.Intn(40000)))
				case 2:
					req.Header.SetMethod("PUT")
					req.SetBodyStream(&slowReader{b: bytes.Repeat([]byte{byte(k)}, cr.Intn(60000)), chunk: 1 + cr.Intn(3000)}, -1)
				}
				stats.requests.Add(1)
				stats.rtCalls.Add(1)
				_, err := e.Client.RoundTrip(e.HC, req, res)
				if err == nil {
					tagGot := string(res.Header.Peek("x-rtag"))
					b := res.Body()
					if tagGot != tag || bytes.Count(b, []byte(tag+"|"))*len(tag+"|") != len(b) {
						failMsg.Store(fmt.Sprintf("%s: RoundTrip for %s returned the response tagged %q with a %d-byte body that is not a repetition of its tag", id, tag, tagGot, len(b)))
					}
					stats.responsesChecked.Add(1)
				} else {
					stats.rtErrors.Add(1)
					m := err.Error()
					if len(m) > 60 {
						m = m[:60]
					}
					v, _ := stats.interleavings.LoadOrStore("rterr:"+m, new(atomic.Int64))
					v.(*atomic.Int64).Add(1)
				}
				// the caller recycles both at once, as fasthttp's own client does
				fasthttp.ReleaseRequest(req)
				fasthttp.ReleaseResponse(res)
			}
		}(k)
	}
	if rng.Intn(4) == 0 {
		d := time.Duration(rng.Intn(200000)) * time.Microsecond
		go func() {
			time.Sleep(d)
			e.Client.Close()
			stats.closes.Add(1)
		}()
	}
	done := make(chan struct{})
	go func() { wg.Wait(); close(done) }()
	select {
	case <-done:
	case <-time.After(60 * time.Second):
		e.Close()
		return ""
	}
	e.Close()
	late.Wait()
	if m, ok := failMsg.Load().(string); ok {
		return m
	}
	return ""
}
