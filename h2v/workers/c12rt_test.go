package workers

import (
	"os"
	"bytes"
	"context"
	"fmt"
	"math/rand"
	"runtime/pprof"
	"strings"
	"sync"
	"sync/atomic"
	"testing"
	"time"

	http2 "github.com/dgrr/http2"
	"github.com/valyala/fasthttp"

	"h2v/rt"
	"h2v/vf"
	"h2v/wire"
)

// c12RoundTrip: the per-request timeout only exists at RoundTrip level, so "every request ends exactly once within
// its configured timeout" is judged there: HostClient + ConfigureClient over TLS in a bubble, against a scripted
// server that is silent, late, stops reading while it floods the client with frames that need replies, or whose
// transport starts failing writes in the middle of a request body.
func c12RoundTrip(r *vf.Run, t *testing.T, id string, rng *rand.Rand) {
	kind := []string{"silence", "late", "wedged-replies", "wedged-replies", "write-fault", "write-fault", "close-under-load", "reset-after-timeout"}[rng.Intn(8)]
	if rng.Intn(150) == 0 { // rare: on the unchanged tree every such case reproduces F-C12-10 and costs a real-time watchdog
		kind = "wedged-writer"
	}
	if os.Getenv("VERIF_C12_REDIAL") != "" || rng.Intn(150) == 0 { // rare for the same reason: F-C12-14, one real-time watchdog per case
		kind = "redial-black-hole"
	}
	n := 1 + rng.Intn(5)
	maxResp := time.Duration(1+rng.Intn(5)) * time.Second
	replay := map[string]any{"level": "roundtrip", "kind": kind, "callers": n, "max_response_time_s": maxResp.Seconds()}
	failed := false
	var triggers []string
	if kind == "wedged-writer" {
		// input-only trigger of known finding F-C12-10: the peer stops reading while a request body is being written
		triggers = []string{"client.peerStopsReadingWhileRequestBodyIsBeingWritten"}
	}
	if kind == "redial-black-hole" {
		// input-only trigger of known finding F-C12-14: the connection is lost and the host no longer answers a dial
		triggers = []string{"client.hostGoesDarkAfterConnectionLoss"}
	}
	fail := func(rule, detail string) {
		if !failed {
			r.Fail("C12."+rule, id, detail, triggers, replay)
		}
		failed = true
	}
	watchdog := 40 * time.Second
	if kind == "wedged-writer" || kind == "redial-black-hole" {
		watchdog = 8 * time.Second
	}
	type call struct {
		tag      string
		body     int
		streamed bool
		done     bool
		err      error
		at       time.Duration
		returns  int
		res      *fasthttp.Response
	}
	res := rt.RunBubble(t, id, watchdog, func() {
		opts := http2.ClientOpts{MaxResponseTime: maxResp, PingInterval: time.Hour}
		capS := 0
		if strings.HasPrefix(kind, "wedged") {
			capS = 8 << 10
		}
		env, err := rt.NewRTEnvWith(id, opts, []wire.Setting{{ID: 3, Val: 100}, {ID: 4, Val: 1 << 20}}, func(e *rt.RTEnv) { e.CapToServer = capS })
		if err != nil {
			fail("configure-client", err.Error())
			return
		}
		rt.Wait()
		conns := env.Conns()
		if len(conns) == 0 {
			fail("no-connection", "no connection reached the scripted server")
			env.Close()
			return
		}
		c0 := conns[0]
		start := time.Now()
		var mu sync.Mutex
		calls := make([]*call, n)
		launch := func(c *call) {
			go func() {
				req := &fasthttp.Request{}
				req.SetRequestURI("https://h2v.example/" + c.tag)
				req.Header.Add("x-vtag", c.tag)
				if c.body > 0 {
					req.Header.SetMethod("POST")
					b := bytes.Repeat([]byte{'u'}, c.body)
					if c.streamed {
						req.SetBodyStream(&slowReader{b: b, chunk: 4000}, -1)
					} else {
						req.SetBody(b)
					}
				}
				_, err := env.Client.RoundTrip(env.HC, req, c.res)
				mu.Lock()
				if !c.done {
					c.done, c.err, c.at = true, err, time.Since(start)
				}
				c.returns++
				mu.Unlock()
			}()
		}
		for i := range calls {
			c := &call{tag: fmt.Sprintf("%s.%d", id, i), res: &fasthttp.Response{}}
			switch kind {
			case "wedged-writer":
				c.body = 100000 + rng.Intn(200000) // more than the transport holds: the write loop blocks in Write
				c.streamed = rng.Intn(2) == 0
			case "wedged-replies":
				// small requests that are on the wire in full: what wedges the write loop are its own replies
			case "write-fault":
				c.body = 20000 + rng.Intn(100000)
				c.streamed = rng.Intn(2) == 0
			default:
				if rng.Intn(2) == 0 {
					c.body = rng.Intn(30000)
					c.streamed = rng.Intn(2) == 0
				}
			}
			calls[i] = c
		}
		answer := func(c *rt.RTConn, s *rt.SeenRequest) {
			tag, _ := s.Get("x-vtag")
			blk := c.P.EncodeBlock([]F{{Name: ":status", Value: "200"}, {Name: "x-rtag", Value: tag}}, nil)
			out := rt.Concat(rt.HeaderFrames(s.Stream, blk, nil, -1, nil, false))
			out = append(out, rt.Concat(rt.DataFrames(s.Stream, []byte("body for "+tag), nil, nil, true))...)
			c.P.Write(out)
		}
		switch kind {
		case "wedged-writer":
			c0.P.StopReading()
		case "write-fault":
			w, _ := c0.Cli.Counters()
			c0.Cli.FailWriteAfter = w + int64(200+rng.Intn(30000)) // somewhere in the HEADERS or DATA of the requests
		}
		for _, c := range calls {
			launch(c)
		}
		rt.Wait()
		answeredAll := false
		switch kind {
		case "silence":
			// some are answered, the rest never
			for _, s := range rt.SeenOn(c0.P) {
				if rng.Intn(3) == 0 && s.EndStream > 0 {
					answer(c0, s)
				}
			}
		case "late", "reset-after-timeout":
		case "wedged-writer", "wedged-replies":
			// the client's write loop ends up sitting in Write (8 KiB of transport, nobody reading); every one of
			// these needs a reply, and the replies cannot be queued for ever
			c0.P.StopReading()
			var flood []byte
			for i := 0; i < 1200+rng.Intn(800); i++ {
				flood = append(flood, rt.Ping(false, fmt.Sprintf("p%07d", i))...)
				if i%7 == 0 {
					flood = append(flood, rt.SettingsFrame(wire.Setting{ID: 3, Val: uint32(100 + i)})...)
				}
				// and frames that make the read loop nudge the write loop (window changes): the nudge must not wait for a
				// write loop that is not listening
				if i%11 == 0 {
					flood = append(flood, rt.WindowUpdate(0, 1)...)
				}
				if i%13 == 0 {
					flood = append(flood, rt.SettingsFrame(wire.Setting{ID: 4, Val: uint32(1<<20 + i)})...)
				}
			}
			c0.P.Write(flood)
		case "close-under-load":
			time.Sleep(time.Duration(rng.Intn(int(maxResp))))
			go env.Client.Close()
		case "redial-black-hole":
			// the connection is lost with requests in flight, and the host has gone dark: whatever the client dials from now
			// on is accepted and never answered (no TLS handshake, no SETTINGS). More requests arrive at that moment.
			env.SetHangDial(env.Dials() + 1)
			if rng.Intn(2) == 0 {
				c0.Raw.Close()
			} else {
				c0.Raw.Reset()
			}
			for i := 0; i < 1+rng.Intn(3); i++ {
				c := &call{tag: fmt.Sprintf("%s.late%d", id, i), res: &fasthttp.Response{}}
				calls = append(calls, c)
				launch(c)
			}
		}
		rt.Wait()
		// the deadline: every RoundTrip has returned by MaxResponseTime (+1 virtual second for the retry on a fresh connection)
		time.Sleep(time.Until(start.Add(maxResp + time.Second)))
		rt.Wait()
		switch kind {
		case "late":
			for _, c := range env.Conns() {
				for _, s := range rt.SeenOn(c.P) {
					if s.EndStream > 0 {
						answer(c, s)
					}
				}
			}
			answeredAll = true
		case "reset-after-timeout":
			for _, c := range env.Conns() {
				for _, s := range rt.SeenOn(c.P) {
					c.P.Write(rt.RstStream(s.Stream, 8))
				}
			}
		}
		rt.Wait()
		// requests that were retried on fresh connections get their full timeout there as well
		time.Sleep(2*maxResp + 2*time.Second)
		rt.Wait()
		mu.Lock()
		for _, c := range calls {
			if !c.done {
				fail("caller-not-resolved", fmt.Sprintf("kind %s: RoundTrip for %s (body %d, streamed %v) has not returned %.0f virtual seconds after it was called; MaxResponseTime is %.0f s", kind, c.tag, c.body, c.streamed, time.Since(start).Seconds(), maxResp.Seconds()))
				continue
			}
			if c.err == nil {
				if got := string(c.res.Header.Peek("x-rtag")); got != c.tag || string(c.res.Body()) != "body for "+c.tag {
					fail("success-with-wrong-response", fmt.Sprintf("kind %s: RoundTrip for %s succeeded with the response tagged %q, body %.40q", kind, c.tag, got, c.res.Body()))
				}
				if kind == "late" || kind == "reset-after-timeout" {
					fail("success-without-response", fmt.Sprintf("kind %s: RoundTrip for %s reported success at %.1f s although the server had not answered anything by then", kind, c.tag, c.at.Seconds()))
				}
			}
			if c.err != nil && (strings.Contains(c.err.Error(), "runtime error") || strings.Contains(c.err.Error(), "nil pointer")) {
				fail("panic-surfaced", fmt.Sprintf("RoundTrip for %s returned a recovered panic: %v", c.tag, c.err))
			}
			r.Mark("rt_outcomes", kind+"/"+errClass(c.err))
		}
		mu.Unlock()
		_ = answeredAll
		// a follow-up request on the same client must still work and get its own response (a late answer must not leak into it)
		if kind == "late" || kind == "silence" || kind == "reset-after-timeout" {
			probe := &call{tag: id + ".probe", res: &fasthttp.Response{}}
			pstart := time.Now()
			launch(probe)
			for round := 0; round < 4; round++ {
				rt.Wait()
				for _, c := range env.Conns() {
					for _, s := range rt.SeenOn(c.P) {
						if tag, _ := s.Get("x-vtag"); tag == probe.tag && s.EndStream > 0 {
							answer(c, s)
						}
					}
				}
			}
			time.Sleep(time.Until(pstart.Add(maxResp + time.Second)))
			rt.Wait()
			mu.Lock()
			switch {
			case !probe.done:
				fail("caller-not-resolved", fmt.Sprintf("kind %s: a request made after the timed-out ones never returned", kind))
			case probe.err == nil && string(probe.res.Header.Peek("x-rtag")) != probe.tag:
				fail("success-with-wrong-response", fmt.Sprintf("kind %s: the request made after the timed-out ones got the response tagged %q", kind, probe.res.Header.Peek("x-rtag")))
			case probe.err != nil:
				r.Inc("probe_after_timeouts_failed", 1)
				r.Mark("probe_errors", kind+"/"+errClass(probe.err))
			default:
				r.Inc("probe_after_timeouts_answered", 1)
			}
			mu.Unlock()
		}
		if strings.HasPrefix(kind, "wedged") {
			// Conn.Close waits for the write lock behind the wedged Write and relies on a write deadline to get it; a
			// goroutine waiting for a mutex freezes a bubble's clock, so here the transport goes first (Close behind a
			// wedged writer is judged in real time, see c12WedgedClose)
			for _, c := range env.Conns() {
				c.Raw.Close()
				c.P.Unpark()
			}
			rt.Wait()
		}
		// the silent hosts of redial-black-hole disconnect now: Client.Close would otherwise wait behind a dial that never
		// ends (the verdict of that family is taken from the RoundTrips above, not from this clean-up)
		env.ReleaseHung()
		rt.Wait()
		env.Close()
		for _, c := range env.Conns() {
			c.P.Unpark()
		}
		rt.Wait()
		time.Sleep(5 * time.Second)
		rt.Wait()
		if left := rt.GoroutinesOf(id, "github.com/dgrr/http2."); len(left) > 0 {
			fail("goroutine-leak", fmt.Sprintf("kind %s: %d goroutine(s) of the client are still alive after Client.Close and disconnect:\n%s", kind, len(left), strings.Join(left, "\n")))
		}
		r.Inc("roundtrip_calls", int64(n))
	})
	switch {
	case res.TimedOut && kind == "wedged-writer" && strings.Contains(strings.Join(res.MutexStuck, "\n"), "(*Ctx).takeBack"):
		fail("roundtrip-outlives-timeout", "kind wedged-writer: MaxResponseTime has passed and RoundTrip is waiting in takeBack for the request's Ctx, which the write loop holds while it sits in a transport Write the peer never reads (no write deadline, and the ping check runs on the same loop):\n"+strings.Join(res.MutexStuck, "\n"))
	case res.TimedOut && kind == "redial-black-hole" && strings.Contains(strings.Join(res.MutexStuck, "\n"), "http2.(*Client).") && strings.Contains(strings.Join(res.Others, "\n"), "(*Dialer).tryDial"):
		// (whoever waits for the client's lock - RoundTrip in pickConn, Close of the lost connection in onConnectionDropped -
		// waits behind a dial that has no time limit; the dialling goroutine is a RoundTrip in pickConn or that same Close)
		fail("roundtrip-outlives-timeout", "kind redial-black-hole: RoundTrip waits in pickConn for the client's lock, before its timer is even armed; the lock is held by the dial of a replacement connection (made from inside Close of the lost one, or by another RoundTrip), and that dial has no time limit: TCP connect, TLS handshake and the wait for the server's SETTINGS can each last for ever against a host that accepts and never answers:\n"+strings.Join(res.MutexStuck, "\n")+"\n"+strings.Join(res.Others, "\n"))
	case res.TimedOut && len(res.MutexStuck) > 0:
		fail("deadlock", "kind "+kind+": the bubble never became quiescent and these goroutines of the client were waiting for a mutex when the watchdog fired:\n"+strings.Join(res.MutexStuck, "\n"))
	case res.TimedOut:
		r.Inconclusive("real-time watchdog expired inside a bubble")
	case res.Panic != "":
		fail("panic", res.Panic+"\n"+res.PanicStack)
	case res.Deadlock:
		fail("goroutine-stuck-for-ever", "kind "+kind+": the bubble ended with goroutines that can never run again (synctest deadlock)")
	}
	r.Mark("families", "roundtrip/"+kind)
	r.Eval(vf.Hash("rt", kind, n, int(maxResp/time.Second)), true)
	if r.WantSample() {
		r.Sample(replay)
	}
}

func errClass(err error) string {
	if err == nil {
		return "ok"
	}
	m := err.Error()
	if len(m) > 40 {
		m = m[:40]
	}
	return m
}

// c12WedgedClose runs in real time, outside a bubble: Close must get through although the write loop sits in a
// transport Write that the peer never reads (Close bounds its farewell by a write deadline, and a goroutine that
// waits for a mutex would freeze a bubble's virtual clock, so virtual time cannot show this). The verdict does not
// rest on the wall clock: after a generous wait the goroutine dump must show the wait-for cycle itself (Close or
// RoundTrip waiting for a lock whose holder sits in Write on a transport nobody reads and that has no deadline).
func c12WedgedClose(r *vf.Run, t *testing.T, id string, rng *rand.Rand) {
	n := 1 + rng.Intn(4)
	replay := map[string]any{"level": "roundtrip-realtime", "kind": "wedged-close", "callers": n}
	var verdict, detail string
	done := make(chan struct{})
	go pprof.Do(context.Background(), pprof.Labels("vcase", id), func(context.Context) {
		defer close(done)
		env, err := rt.NewRTEnvWith(id, http2.ClientOpts{MaxResponseTime: time.Hour, PingInterval: time.Hour}, []wire.Setting{{ID: 3, Val: 100}, {ID: 4, Val: 1 << 20}}, func(e *rt.RTEnv) { e.CapToServer = 8 << 10 })
		if err != nil {
			verdict, detail = "inconclusive", "configure: "+err.Error()
			return
		}
		var c0 *rt.RTConn
		for i := 0; i < 400 && c0 == nil; i++ {
			if cs := env.Conns(); len(cs) > 0 {
				c0 = cs[0]
			} else {
				time.Sleep(5 * time.Millisecond)
			}
		}
		if c0 == nil {
			verdict, detail = "inconclusive", "no connection"
			env.Close()
			return
		}
		c0.P.StopReading()
		var wg sync.WaitGroup
		var returned atomic.Int64
		for i := 0; i < n; i++ {
			tag := fmt.Sprintf("%s.%d", id, i)
			body := bytes.Repeat([]byte{'w'}, 100000+rng.Intn(200000))
			streamed := rng.Intn(2) == 0
			wg.Add(1)
			go func() {
				defer wg.Done()
				req, res := &fasthttp.Request{}, &fasthttp.Response{}
				req.SetRequestURI("https://h2v.example/" + tag)
				req.Header.SetMethod("POST")
				req.Header.Add("x-vtag", tag)
				if streamed {
					req.SetBodyStream(&slowReader{b: body, chunk: 4000}, -1)
				} else {
					req.SetBody(body)
				}
				env.Client.RoundTrip(env.HC, req, res)
				returned.Add(1)
			}()
		}
		// wait until the client's writes have stopped making progress (the transport is full)
		var last int64 = -1
		for i := 0; i < 400; i++ {
			time.Sleep(10 * time.Millisecond)
			w, _ := c0.Cli.Counters()
			if w == last && w > 8<<10 {
				break
			}
			last = w
		}
		closed := make(chan struct{})
		go func() { env.Client.Close(); close(closed) }()
		all := make(chan struct{})
		go func() { wg.Wait(); close(all) }()
		ok := true
		select {
		case <-all:
		case <-time.After(25 * time.Second):
			ok = false
		}
		if ok {
			select {
			case <-closed:
			case <-time.After(10 * time.Second):
				ok = false
			}
		}
		if ok {
			verdict = "held"
		} else {
			stuck := rt.GoroutinesOf(id, "github.com/dgrr/http2.")
			js := strings.Join(stuck, "\n")
			if strings.Contains(js, "sync.(*Mutex).Lock") && strings.Contains(js, "fakeconn.(*Conn).Write") {
				verdict, detail = "violated", fmt.Sprintf("%d of %d RoundTrip calls have not returned after Client.Close: a goroutine waits for a lock whose holder sits in a transport Write that the peer never reads:\n%s", int64(n)-returned.Load(), n, js)
			} else {
				verdict, detail = "inconclusive", "wall-clock limit passed without the wait-for cycle in the goroutine dump"
			}
		}
		for _, c := range env.Conns() {
			c.Raw.Close()
			c.P.Unpark()
		}
		env.Close()
	})
	select {
	case <-done:
	case <-time.After(90 * time.Second):
		verdict, detail = "inconclusive", "real-time watchdog"
	}
	switch verdict {
	case "violated":
		r.Fail("C12.stranded-after-close", id, detail, nil, replay)
	case "inconclusive":
		r.Inconclusive("wedged-close (real time): " + detail)
	default:
		r.Inc("close_behind_a_wedged_writer_got_through", 1)
	}
	r.Mark("families", "roundtrip-realtime/wedged-close")
	r.Eval(vf.Hash("rt-real", "wedged-close", n), true)
	if r.WantSample() {
		r.Sample(replay)
	}
}
