package workers

import (
	"bytes"
	"fmt"
	"math/rand"
	"sort"
	"strings"

	"h2v/hpackref"
	"h2v/rt"
	"h2v/wire"
)

// reqSpec is one well-formed (unless a test says otherwise) request plus how it is put on the wire.
type reqSpec struct {
	Tag       string
	Stream    uint32
	Pseudo    []F // in the order they are sent
	Fields    []F // regular fields, lower-case names
	Trailers  []F
	Body      []byte
	Choices   []hpackref.Choice
	SplitSeed []int // header block cut points are SplitSeed[i] % (len(block)+1)
	PadLen    int   // -1: no padding
	Prio      *rt.Prio
	Chunks    []int
	Pads      []int
	// EndMode: 0 END_STREAM on HEADERS; 1 on the last DATA; 2 on an extra empty DATA; 3 on trailers
	EndMode       int
	TrailerSplits []int
	// SizeUpdates are dynamic table size updates placed at the start of the header block (RFC 7541 4.2, 6.3); CutAtUpdate
	// adds a fragment boundary right behind them (1), or one byte into the field that follows (2)
	SizeUpdates []uint32
	CutAtUpdate int
	Resp        *rt.RespPlan
	Traits        []string // structural traits for the shape hash / non-triviality
}

var customNameAlphabet = "abcdefghijklmnopqrstuvwxyz0123456789-."

func randToken(rng *rand.Rand, n int, alphabet string) string {
	b := make([]byte, n)
	for i := range b {
		b[i] = alphabet[rng.Intn(len(alphabet))]
	}
	return string(b)
}

func randValue(rng *rand.Rand) string {
	n := 0
	switch rng.Intn(10) {
	case 0:
		n = 0
	case 1:
		n = 200 + rng.Intn(9000)
	case 2:
		n = []int{63, 64, 126, 127, 128, 255, 256}[rng.Intn(7)]
	default:
		n = 1 + rng.Intn(30)
	}
	if n == 0 {
		return ""
	}
	b := make([]byte, n)
	for i := range b {
		b[i] = byte(33 + rng.Intn(94)) // visible ASCII, no spaces at the ends
	}
	for i := 1; i < n-1; i++ {
		if rng.Intn(9) == 0 {
			b[i] = ' '
		}
	}
	return string(b)
}

type genOpts struct {
	MaxBody      int
	AllowTrail   bool
	AllowUnder   bool // '_' in response field names
	RespStream   bool // allow streamed responses
	MaxRespBody  int
	AllowStream2 bool // streamed with unknown length
	SizeUpdates  bool // header blocks may start with dynamic table size updates (within the 4096 the server advertises)
}

// genRequest produces a well-formed request with random encoding/fragmentation choices.
func genRequest(rng *rand.Rand, conn string, n int, g genOpts) *reqSpec {
	s := &reqSpec{Tag: fmt.Sprintf("%s.%d", conn, n), Stream: uint32(2*n + 1), PadLen: -1}
	method := []string{"GET", "POST", "PUT", "HEAD", "DELETE", "OPTIONS", "PATCH", "GET", "POST"}[rng.Intn(9)]
	path := "/" + randToken(rng, rng.Intn(20), "abcdefghijklmnopqrstuvwxyz0123456789/._-") + "/" + s.Tag
	if rng.Intn(2) == 0 {
		path += "?q=" + randToken(rng, 1+rng.Intn(12), "abcdefghijklmnopqrstuvwxyz0123456789=&%+") + "&t=" + s.Tag
	}
	auth := fmt.Sprintf("host-%d.example", rng.Intn(50))
	if rng.Intn(3) == 0 {
		auth += fmt.Sprintf(":%d", 1+rng.Intn(65535))
	}
	scheme := []string{"https", "http"}[rng.Intn(2)]
	s.Pseudo = []F{{Name: ":method", Value: method}, {Name: ":scheme", Value: scheme}, {Name: ":path", Value: path}, {Name: ":authority", Value: auth}}
	rng.Shuffle(len(s.Pseudo), func(i, j int) { s.Pseudo[i], s.Pseudo[j] = s.Pseudo[j], s.Pseudo[i] })
	// body
	hasBody := method == "POST" || method == "PUT" || method == "PATCH" || rng.Intn(10) == 0
	if method == "HEAD" {
		hasBody = false
	}
	if hasBody {
		n := 0
		switch rng.Intn(8) {
		case 0:
			n = 0
		case 1:
			n = []int{1, 16383, 16384, 16385, 65535, 65536}[rng.Intn(6)]
		case 2:
			n = rng.Intn(g.MaxBody + 1)
		default:
			n = 1 + rng.Intn(2000)
		}
		if n > g.MaxBody {
			n = g.MaxBody
		}
		s.Body = make([]byte, n)
		rng.Read(s.Body)
		s.Traits = append(s.Traits, "body")
	}
	// regular fields
	s.Fields = append(s.Fields, F{Name: "x-vtag", Value: s.Tag})
	nf := rng.Intn(12)
	seenUA, seenCT := false, false
	for i := 0; i < nf; i++ {
		var f F
		switch rng.Intn(16) {
		case 0:
			if seenUA {
				continue
			}
			seenUA = true
			f = F{Name: "user-agent", Value: "ua/" + randToken(rng, 1+rng.Intn(20), customNameAlphabet)}
		case 1:
			if seenCT {
				continue
			}
			seenCT = true
			f = F{Name: "content-type", Value: "application/" + randToken(rng, 1+rng.Intn(10), "abcdefghijklmnopqrstuvwxyz")}
		case 2:
			f = F{Name: []string{"accept", "accept-encoding", "accept-language", "authorization", "referer", "cache-control", "if-none-match", "x-forwarded-for"}[rng.Intn(8)], Value: randValue(rng)}
		case 3:
			f = F{Name: "te", Value: "trailers"}
		case 4:
			f = F{Name: "cookie", Value: randToken(rng, 1+rng.Intn(6), "abcdefghijklmnopqrstuvwxyz") + "=" + randToken(rng, 1+rng.Intn(12), "abcdefghijklmnopqrstuvwxyz0123456789")}
		case 5, 6:
			// repeat an earlier custom name
			if len(s.Fields) > 1 {
				prev := s.Fields[1+rng.Intn(len(s.Fields)-1)]
				if strings.HasPrefix(prev.Name, "x-") {
					f = F{Name: prev.Name, Value: randValue(rng)}
					break
				}
			}
			fallthrough
		default:
			f = F{Name: "x-" + randToken(rng, 1+rng.Intn(14), customNameAlphabet+"_"), Value: randValue(rng)}
		}
		if f.Name == "x-vtag" {
			continue
		}
		s.Fields = append(s.Fields, f)
	}
	if hasBody && len(s.Body) > 0 && rng.Intn(2) == 0 {
		s.Fields = append(s.Fields, F{Name: "content-length", Value: fmt.Sprint(len(s.Body))})
	}
	// trailers
	if g.AllowTrail && hasBody && rng.Intn(4) == 0 {
		for i := 1 + rng.Intn(3); i > 0; i-- {
			s.Trailers = append(s.Trailers, F{Name: "x-trailer-" + randToken(rng, 1+rng.Intn(6), "abcdefghijklmnopqrstuvwxyz"), Value: randValue(rng)})
		}
		s.Traits = append(s.Traits, "trailers")
	}
	// encoding
	for i := 0; i < 3+rng.Intn(4); i++ {
		c := randChoice(rng)
		if c.Rep == hpackref.RepNever && rng.Intn(2) == 0 {
			c.Rep = hpackref.RepIncremental
		}
		s.Choices = append(s.Choices, c)
	}
	for i := rng.Intn(4); i > 0; i-- {
		s.SplitSeed = append(s.SplitSeed, rng.Intn(1<<20))
	}
	if g.SizeUpdates && rng.Intn(4) == 0 {
		s.SizeUpdates = [][]uint32{{4096}, {0, 4096}, {0}, {100}, {1000, 4096}, {2000}, {0, 0, 4096}}[rng.Intn(7)]
		s.CutAtUpdate = rng.Intn(3)
		s.Traits = append(s.Traits, fmt.Sprintf("table-size-updates%d/cut%d", len(s.SizeUpdates), s.CutAtUpdate))
	}
	if len(s.SplitSeed) > 0 {
		s.Traits = append(s.Traits, fmt.Sprintf("split%d", len(s.SplitSeed)))
	}
	if rng.Intn(4) == 0 {
		s.PadLen = []int{0, 1, 17, 255}[rng.Intn(4)]
		s.Traits = append(s.Traits, "hpad")
	}
	if rng.Intn(4) == 0 {
		dep := uint32(rng.Intn(40))
		if dep == s.Stream {
			dep++
		}
		s.Prio = &rt.Prio{Dep: dep, Excl: rng.Intn(2) == 0, Weight: byte(rng.Intn(256))}
		s.Traits = append(s.Traits, "prio")
	}
	for i := 1 + rng.Intn(3); i > 0; i-- {
		s.Chunks = append(s.Chunks, []int{0, 1, 7, 100, 1000, 16384, 16384}[rng.Intn(7)])
	}
	if rng.Intn(3) == 0 {
		for i := 1 + rng.Intn(2); i > 0; i-- {
			s.Pads = append(s.Pads, []int{-1, 0, 1, 100, 255}[rng.Intn(5)])
		}
		s.Traits = append(s.Traits, "dpad")
	}
	switch {
	case len(s.Trailers) > 0:
		s.EndMode = 3
		for i := rng.Intn(3); i > 0; i-- {
			s.TrailerSplits = append(s.TrailerSplits, rng.Intn(1<<20))
		}
	case !hasBody:
		s.EndMode = 0
	case rng.Intn(4) == 0:
		s.EndMode = 2
	default:
		s.EndMode = 1
	}
	s.Traits = append(s.Traits, fmt.Sprintf("end%d", s.EndMode))
	// response
	p := &rt.RespPlan{Status: []int{200, 200, 201, 202, 206, 301, 400, 404, 418, 500, 503, 299, 999, 100 + rng.Intn(900)}[rng.Intn(14)]}
	if p.Status < 200 {
		p.Status += 200
	}
	p.Fields = append(p.Fields, [2]string{"x-rtag", s.Tag})
	for i := rng.Intn(6); i > 0; i-- {
		alphabet := customNameAlphabet
		if g.AllowUnder {
			alphabet += "_"
		}
		name := "x-r-" + randToken(rng, 1+rng.Intn(10), alphabet)
		if rng.Intn(6) == 0 {
			name = []string{"cache-control", "etag", "location", "vary", "x-r-dup"}[rng.Intn(5)]
		}
		p.Fields = append(p.Fields, [2]string{name, randValue(rng)})
	}
	bn := 0
	switch rng.Intn(8) {
	case 0:
		bn = 0
	case 1:
		bn = []int{1, 16383, 16384, 16385, 65535, 65536, 70000}[rng.Intn(7)]
	case 2:
		bn = rng.Intn(g.MaxRespBody + 1)
	default:
		bn = 1 + rng.Intn(3000)
	}
	if bn > g.MaxRespBody {
		bn = g.MaxRespBody
	}
	if method == "HEAD" || p.Status == 204 || p.Status == 304 {
		bn = 0
	}
	p.Body = make([]byte, bn)
	rng.Read(p.Body)
	if g.RespStream && method != "HEAD" && p.Status != 204 && p.Status != 304 && rng.Intn(3) == 0 {
		p.Stream = 1
		if g.AllowStream2 && rng.Intn(2) == 0 {
			p.Stream = 2
		}
		p.ReadChunk = []int{0, 1, 100, 5000, 16384, 100000}[rng.Intn(6)]
		if p.ReadChunk == 1 && bn > 3000 {
			p.ReadChunk = 97
		}
		p.EOFWithLast = rng.Intn(2) == 0
		s.Traits = append(s.Traits, fmt.Sprintf("rstream%d", p.Stream))
	}
	if bn > 65535 {
		s.Traits = append(s.Traits, "rbig")
	}
	s.Resp = p
	return s
}

// unit is a contiguous group of frames of one stream (a header block with its continuations, or one DATA frame).
type unit struct {
	req     *reqSpec
	kind    int // 0 request headers, 1 data frame, 2 trailers
	frame   []byte
}

// buildUnits returns the per-stream unit list; header blocks are encoded later, in wire order.
func (s *reqSpec) dataUnits() []unit {
	var us []unit
	if s.EndMode == 0 {
		return nil
	}
	frames := rt.DataFrames(s.Stream, s.Body, s.Chunks, s.Pads, s.EndMode == 1)
	if s.EndMode == 2 {
		frames = append(frames, wire.Frame(nil, wire.TData, wire.FEndStream, s.Stream, nil, -1))
	}
	for _, f := range frames {
		us = append(us, unit{req: s, kind: 1, frame: f})
	}
	return us
}

func splitsFor(seeds []int, n int) []int {
	var out []int
	for _, sd := range seeds {
		out = append(out, sd%(n+1))
	}
	sort.Ints(out)
	return out
}

// headerBytes encodes and frames the request header block with the peer's encoder (call in wire order).
func (s *reqSpec) headerBytes(p *rt.Peer) []byte {
	fields := append(append([]F{}, s.Pseudo...), s.Fields...)
	var upd []byte
	for _, n := range s.SizeUpdates {
		upd = p.Enc.SizeUpdate(upd, n)
	}
	blk := append(upd, p.EncodeBlock(fields, s.Choices)...)
	splits := splitsFor(s.SplitSeed, len(blk))
	if len(upd) > 0 && s.CutAtUpdate > 0 {
		splits = append(splits, len(upd)+s.CutAtUpdate-1)
		sort.Ints(splits)
	}
	return rt.Concat(rt.HeaderFrames(s.Stream, blk, splits, s.PadLen, s.Prio, s.EndMode == 0))
}

func (s *reqSpec) trailerBytes(p *rt.Peer) []byte {
	blk := p.EncodeBlock(s.Trailers, s.Choices)
	return rt.Concat(rt.HeaderFrames(s.Stream, blk, splitsFor(s.TrailerSplits, len(blk)), -1, nil, true))
}

// mergeOrder produces a random interleaving of the streams' unit sequences (header unit first per stream, trailers last).
// It returns, in wire order, (request index, unit index) where unit index -1 = headers, -2 = trailers.
func mergeOrder(rng *rand.Rand, reqs []*reqSpec, dataCounts []int, sequential bool) [][2]int {
	type cur struct{ i, next, total int }
	var order [][2]int
	if sequential {
		for i, r := range reqs {
			order = append(order, [2]int{i, -1})
			for d := 0; d < dataCounts[i]; d++ {
				order = append(order, [2]int{i, d})
			}
			if r.EndMode == 3 {
				order = append(order, [2]int{i, -2})
			}
		}
		return order
	}
	// stream ids must open in increasing order: headers units keep their relative order
	pos := make([]int, len(reqs)) // -1 not started; counts progress: 0 = headers next
	opened := 0
	remaining := 0
	for i, r := range reqs {
		remaining += 1 + dataCounts[i]
		if r.EndMode == 3 {
			remaining++
		}
	}
	for remaining > 0 {
		// candidates: next stream to open, or any opened stream with units left
		var cands []int
		if opened < len(reqs) {
			cands = append(cands, opened)
		}
		for i := 0; i < opened; i++ {
			total := 1 + dataCounts[i]
			if reqs[i].EndMode == 3 {
				total++
			}
			if pos[i] < total {
				cands = append(cands, i)
			}
		}
		i := cands[rng.Intn(len(cands))]
		if i == opened && pos[i] == 0 {
			order = append(order, [2]int{i, -1})
			opened++
		} else {
			k := pos[i] - 1
			if k < dataCounts[i] {
				order = append(order, [2]int{i, k})
			} else {
				order = append(order, [2]int{i, -2})
			}
		}
		pos[i]++
		remaining--
	}
	return order
}

// ---- request oracle ------------------------------------------------------------------------------

func groupByName(fs []F) map[string][]string {
	m := map[string][]string{}
	for _, f := range fs {
		m[f.Name] = append(m[f.Name], f.Value)
	}
	return m
}

// checkRequestSeen compares what the handler saw with what was sent. It returns "" or a description.
func checkRequestSeen(s *reqSpec, rec rt.ReqRec) string {
	ps := groupByName(s.Pseudo)
	if rec.Method != ps[":method"][0] {
		return fmt.Sprintf("method %q, sent %q", rec.Method, ps[":method"][0])
	}
	if rec.URI != ps[":path"][0] {
		return fmt.Sprintf("request URI %q, sent %q", rec.URI, ps[":path"][0])
	}
	if a := ps[":authority"]; len(a) > 0 && rec.Host != a[0] {
		return fmt.Sprintf("host %q, sent authority %q", rec.Host, a[0])
	}
	if !bytes.Equal(rec.Body, s.Body) {
		return fmt.Sprintf("body of %d bytes (%x…), sent %d bytes (%x…)", len(rec.Body), rec.Body[:min(len(rec.Body), 12)], len(s.Body), s.Body[:min(len(s.Body), 12)])
	}
	if rec.Proto != "HTTP/2" {
		return fmt.Sprintf("protocol %q", rec.Proto)
	}
	sent := groupByName(append(append([]F{}, s.Fields...), s.Trailers...))
	got := map[string][]string{}
	for _, kv := range rec.Header {
		got[kv[0]] = append(got[kv[0]], kv[1])
	}
	for name, vals := range sent {
		g := got[name]
		switch name {
		case "cookie":
			if len(g) != 1 || g[0] != strings.Join(vals, "; ") {
				return fmt.Sprintf("cookie seen as %q, sent %q (expected joined with \"; \")", g, vals)
			}
		case "content-length":
			if len(g) != 1 || g[0] != vals[0] {
				return fmt.Sprintf("content-length seen as %q, sent %q", g, vals)
			}
		default:
			if len(g) != len(vals) {
				return fmt.Sprintf("field %q seen %d times (%.80q), sent %d times", name, len(g), g, len(vals))
			}
			for i := range vals {
				if g[i] != vals[i] {
					return fmt.Sprintf("field %q value #%d seen as %.60q (len %d), sent %.60q (len %d)", name, i, g[i], len(g[i]), vals[i], len(vals[i]))
				}
			}
		}
	}
	for name, g := range got {
		if _, ok := sent[name]; ok {
			continue
		}
		switch name {
		case "host":
		case "content-length":
			if g[0] != fmt.Sprint(len(s.Body)) {
				return fmt.Sprintf("handler sees content-length %q that was not sent and differs from the body length %d", g[0], len(s.Body))
			}
		case "content-type", "user-agent":
			if g[0] != "" {
				return fmt.Sprintf("handler sees %s %q that was not sent", name, g[0])
			}
		default:
			return fmt.Sprintf("handler sees field %q=%.60q that was never sent", name, g)
		}
	}
	return ""
}

// checkResponse compares the frames the peer received on a stream with the handler's plan.
func checkResponse(s *reqSpec, fs []rt.Frame) string {
	p := s.Resp
	var kept []rt.Frame
	for _, f := range fs {
		if f.Type != wire.TWindowUpdate {
			kept = append(kept, f)
		}
	}
	fs = kept
	if len(fs) == 0 {
		return "no frame at all arrived on the stream"
	}
	i := 0
	if fs[0].Type != wire.THeaders {
		return fmt.Sprintf("first frame on the stream is %s, not HEADERS", fs[0])
	}
	for i < len(fs) && !fs[i].BlockDone {
		if i > 0 && fs[i].Type != wire.TContinuation {
			return fmt.Sprintf("header block interrupted by %s", fs[i])
		}
		i++
	}
	if i >= len(fs) {
		return "response header block never ended"
	}
	hb := fs[i]
	if hb.HPACKErr != "" {
		return "response header block does not decode: " + hb.HPACKErr
	}
	if len(hb.Fields) == 0 || hb.Fields[0].Name != ":status" {
		return fmt.Sprintf("first response field is %v, not :status", hb.Fields)
	}
	if hb.Fields[0].Value != fmt.Sprint(p.Status) {
		return fmt.Sprintf(":status %q, handler set %d", hb.Fields[0].Value, p.Status)
	}
	want := map[string][]string{}
	for _, f := range p.Fields {
		want[strings.ToLower(f[0])] = append(want[strings.ToLower(f[0])], f[1])
	}
	got := map[string][]string{}
	for _, f := range hb.Fields[1:] {
		if strings.HasPrefix(f.Name, ":") {
			return fmt.Sprintf("second pseudo-header %q in the response", f.Name)
		}
		got[f.Name] = append(got[f.Name], f.Value)
	}
	for name, vals := range want {
		g := got[name]
		if len(g) != len(vals) {
			return fmt.Sprintf("response field %q arrived %d times (%.80q), handler added it %d times; all names received: %q", name, len(g), g, len(vals), keysOf(got))
		}
		for k := range vals {
			if g[k] != vals[k] {
				return fmt.Sprintf("response field %q value #%d is %.60q, handler set %.60q", name, k, g[k], vals[k])
			}
		}
	}
	for name, g := range got {
		if _, ok := want[name]; ok {
			continue
		}
		switch name {
		case "content-type", "server", "date":
		case "content-length":
			if g[0] != fmt.Sprint(len(p.Body)) {
				return fmt.Sprintf("content-length %q but the handler's body has %d bytes", g[0], len(p.Body))
			}
		default:
			return fmt.Sprintf("response carries field %q=%.60q that the handler did not set", name, g)
		}
	}
	ended := fs[i].EndStream
	if fs[0].EndStream {
		ended = true
	}
	var body []byte
	for _, f := range fs[i+1:] {
		if ended {
			return fmt.Sprintf("%s arrived after END_STREAM", f)
		}
		switch f.Type {
		case wire.TData:
			body = append(body, f.Data...)
			ended = f.EndStream
		case wire.TRstStream:
			return fmt.Sprintf("RST_STREAM(code %d) on a well-formed stream", f.Code)
		default:
			return fmt.Sprintf("unexpected %s on the stream", f)
		}
	}
	if !bytes.Equal(body, p.Body) {
		return fmt.Sprintf("response body has %d bytes, handler produced %d (first difference at %d)", len(body), len(p.Body), firstDiff(body, p.Body))
	}
	if !ended {
		return fmt.Sprintf("END_STREAM never arrived (stream mode %d, body %d bytes, %d frames on the stream)", p.Stream, len(p.Body), len(fs))
	}
	return ""
}

func keysOf(m map[string][]string) []string {
	var k []string
	for n := range m {
		k = append(k, n)
	}
	sort.Strings(k)
	return k
}

func firstDiff(a, b []byte) int {
	for i := 0; i < len(a) && i < len(b); i++ {
		if a[i] != b[i] {
			return i
		}
	}
	return min(len(a), len(b))
}
