package workers

import (
	"fmt"
	"math/rand"
	"testing"
	"time"

	"h2v/rt"
	"h2v/vf"
	"h2v/wire"
)

// simpleGet builds a bodiless request with a tag.
func simpleGet(p *rt.Peer, stream uint32, tag string) []byte {
	blk := p.EncodeBlock([]F{{Name: ":method", Value: "GET"}, {Name: ":scheme", Value: "https"}, {Name: ":path", Value: "/" + tag}, {Name: ":authority", Value: "c.example"}, {Name: "x-vtag", Value: tag}}, nil)
	return rt.Concat(rt.HeaderFrames(stream, blk, nil, -1, nil, true))
}

func TestC06(t *testing.T) {
	r := vf.Begin(t, "C06")
	defer r.End()
	defer perturbReport(r)
	r.Describe("PRNG schedules on one server connection in a synctest bubble: 1-8 concurrent responses (sizes 0,1,16383,16384,65535,65536,300000,PRNG; buffered and streamed) under an initial stream window from {0,1,100,16383,16384,65535,100000,1 MiB}, "+
		"followed by up to 60 steps each sending 1-3 of: stream WINDOW_UPDATE, connection WINDOW_UPDATE (1..large), SETTINGS_INITIAL_WINDOW_SIZE increase/decrease (to 0, below what was already sent), MAX_FRAME_SIZE change, placed at PRNG points of response progress; after every step the bubble is quiescent. "+
		"The peer's ledger is authoritative: a decrease binds when the server's ACK is read, grants from the moment they are sent. Safety on every DATA frame (stream window, connection window, MAX_FRAME_SIZE); progress at every quiescent point (bytes owed => a window <= 0); completion with exactly one END_STREAM once enough credit was granted. "+
		"Non-trivial = the schedule contains a settings change or at least 2 streams; distinct = distinct (sizes-class, window, action-kind sequence) vectors.",
		"x/net Framer reads the server's frames correctly; quiescence (synctest.Wait) means the server has reacted to everything sent so far")
	n := r.Pick(500, 30000)
	for i := 0; i < n; i++ {
		id := fmt.Sprintf("f%d", i)
		if !r.Want(i, id) {
			continue
		}
		r.Progress(id, "")
		switch vf.Hash("c06-family", id) % 16 {
		case 0:
			c06Overflow(r, t, id, r.Rand(id))
			continue
		case 1:
			c06ReadError(r, t, id, r.Rand(id))
			continue
		}
		c06Scenario(r, t, id, r.Rand(id))
	}
}

func c06Scenario(r *vf.Run, t *testing.T, id string, rng *rand.Rand) {
	k := 1 + rng.Intn(8)
	if rng.Intn(2) == 0 {
		k = 1 + rng.Intn(3)
	}
	w0 := []int64{0, 1, 100, 16383, 16384, 65535, 65535, 100000, 1 << 20}[rng.Intn(9)]
	sizes := make([]int, k)
	modes := make([]int, k)
	chunks := make([]int, k)
	for i := range sizes {
		switch rng.Intn(8) {
		case 0:
			sizes[i] = 0
		case 1:
			sizes[i] = []int{1, 16383, 16384, 65535, 65536, 300000}[rng.Intn(6)]
		case 2:
			sizes[i] = rng.Intn(200000)
		default:
			sizes[i] = 1 + rng.Intn(70000)
		}
		modes[i] = rng.Intn(3)
		chunks[i] = []int{0, 1000, 16384, 20000, 100000}[rng.Intn(5)]
	}
	uploading := make([]bool, k)
	for i := range uploading {
		uploading[i] = rng.Intn(4) == 0
	}
	nsteps := rng.Intn(r.Pick(40, 60))
	gateAll := rng.Intn(2) == 0
	var actions []rt.Action
	var kinds []string
	var triggers []string
	replay := map[string]any{"k": k, "w0": w0, "sizes": sizes, "modes": modes, "steps": nsteps}
	shape := []any{k, w0}
	settingsChanged := false
	var failed bool
	fail := func(rule, detail string) {
		if !failed {
			replay["actions"] = actions
			r.Fail("C06."+rule, id, detail, triggers, replay)
		}
		failed = true
	}
	res := rt.RunBubble(t, id, 60*time.Second, func() {
		e := rt.NewServerEnv(id, rt.ServerOpts{PeerSettings: []wire.Setting{{ID: 4, Val: uint32(w0)}}})
		led := &rt.Ledger{InitWindow: w0}
		var gates []chan struct{}
		var out []byte
		for i := 0; i < k; i++ {
			tag := fmt.Sprintf("%s.%d", id, i)
			body := make([]byte, sizes[i])
			rng.Read(body)
			pl := &rt.RespPlan{Status: 200, Body: body, Stream: modes[i], ReadChunk: chunks[i]}
			if gateAll || rng.Intn(3) == 0 {
				g := e.H.NewGate()
				gates = append(gates, g)
				pl.Gate = g
			}
			e.H.SetPlan(tag, pl)
			if uploading[i] {
				// the request is still being sent while windows change: HEADERS now, the end of the body at a later step
				blk := e.P.EncodeBlock([]F{{Name: ":method", Value: "POST"}, {Name: ":scheme", Value: "https"}, {Name: ":path", Value: "/" + tag}, {Name: ":authority", Value: "c.example"}, {Name: "x-vtag", Value: tag}}, nil)
				out = append(out, rt.Concat(rt.HeaderFrames(uint32(2*i+1), blk, nil, -1, nil, false))...)
				out = append(out, wire.Frame(nil, wire.TData, 0, uint32(2*i+1), []byte("first part"), -1)...)
			} else {
				out = append(out, simpleGet(e.P, uint32(2*i+1), tag)...)
			}
			led.Opened = append(led.Opened, uint32(2*i+1))
		}
		e.P.Write(out)
		rt.Wait()
		setSeq := 0
		curInit := w0
		var lastSt *rt.LedgerState
		check := func(where string) {
			viol, st := led.Replay(e.P.Frames(), actions, 1)
			if viol != "" {
				fail("window-exceeded", where+": "+viol)
				return
			}
			recs, fin, _, _ := e.H.Snapshot()
			_ = recs
			finished := map[string]bool{}
			for _, tg := range fin {
				finished[tg] = true
			}
			for i := 0; i < k; i++ {
				sid := uint32(2*i + 1)
				tag := fmt.Sprintf("%s.%d", id, i)
				if !finished[tag] {
					continue // handler still parked: nothing owed yet
				}
				owed := int64(sizes[i]) - st.Sent[sid]
				if owed > 0 && st.Streams[sid] > 0 && st.Conn > 0 {
					fail("stalled-with-open-windows", fmt.Sprintf("%s: stream %d still owes %d bytes while its window is %d and the connection window is %d, and the server is quiescent", where, sid, owed, st.Streams[sid], st.Conn))
					return
				}
				if owed < 0 {
					fail("more-data-than-body", fmt.Sprintf("%s: stream %d received %d bytes more than the handler produced", where, sid, -owed))
				}
				if owed == 0 && sizes[i] > 0 && st.Ended[sid] == 0 {
					// the last byte is out; END_STREAM needs no window (an empty DATA frame carries it)
					fail("end-stream-withheld", fmt.Sprintf("%s: stream %d has received all %d bytes of its response and no END_STREAM, its window is %d, the connection window %d, and the server is quiescent (response mode %d)", where, sid, sizes[i], st.Streams[sid], st.Conn, modes[i]))
					return
				}
			}
			lastSt = st
		}
		// exactOwed returns an increment that takes the stream's window to exactly what the response still owes (0 if there is
		// nothing sensible to send): the last body byte then uses the last octet of window
		exactOwed := func(i int) int64 {
			if lastSt == nil {
				return 0
			}
			sid := uint32(2*i + 1)
			owed := int64(sizes[i]) - lastSt.Sent[sid]
			if inc := owed - lastSt.Streams[sid]; owed > 0 && inc > 0 && inc < 1<<30 {
				return inc
			}
			return 0
		}
		gi := 0
		for step := 0; step < nsteps && !failed; step++ {
			var burst []byte
			at := e.P.NFrames()
			for a := 1 + rng.Intn(3); a > 0; a-- {
				if rng.Intn(8) == 0 && !settingsChanged {
					// (only while no INITIAL_WINDOW_SIZE change is in flight, so that the window known here is the window there)
					i := rng.Intn(k)
					if inc := exactOwed(i); inc > 0 {
						sid := uint32(2*i + 1)
						burst = append(burst, rt.WindowUpdate(sid, uint32(inc))...)
						actions = append(actions, rt.Action{At: at, Kind: "wu", Stream: sid, Val: inc})
						kinds = append(kinds, "wx")
						continue
					}
				}
				switch rng.Intn(7) {
				case 0, 1:
					sid := uint32(2*rng.Intn(k) + 1)
					inc := int64(1 + rng.Intn(40000))
					burst = append(burst, rt.WindowUpdate(sid, uint32(inc))...)
					actions = append(actions, rt.Action{At: at, Kind: "wu", Stream: sid, Val: inc})
					kinds = append(kinds, "ws")
				case 2, 3:
					inc := int64(1 + rng.Intn(70000))
					if rng.Intn(5) == 0 {
						inc = int64(1 + rng.Intn(10))
					}
					burst = append(burst, rt.WindowUpdate(0, uint32(inc))...)
					actions = append(actions, rt.Action{At: at, Kind: "wu", Stream: 0, Val: inc})
					kinds = append(kinds, "wc")
				case 4:
					v := []int64{0, 1, 100, 16384, 65535, 70000, 1 << 20, curInit + 1, max(curInit-1, 0)}[rng.Intn(9)]
					setSeq++
					burst = append(burst, rt.SettingsFrame(wire.Setting{ID: 4, Val: uint32(v)})...)
					actions = append(actions, rt.Action{At: at, Kind: "settings-window", Val: v, SetSeq: setSeq})
					if v < curInit {
						kinds = append(kinds, "sd")
					} else {
						kinds = append(kinds, "si")
					}
					curInit = v
					settingsChanged = true
				case 5:
					v := []int64{16384, 16385, 65536, 1<<24 - 1}[rng.Intn(4)]
					setSeq++
					burst = append(burst, rt.SettingsFrame(wire.Setting{ID: 5, Val: uint32(v)})...)
					actions = append(actions, rt.Action{At: at, Kind: "settings-maxframe", Val: v, SetSeq: setSeq})
					kinds = append(kinds, "mf")
				case 6:
					for i := range uploading {
						if uploading[i] && rng.Intn(2) == 0 {
							uploading[i] = false
							burst = append(burst, wire.Frame(nil, wire.TData, wire.FEndStream, uint32(2*i+1), []byte("the end"), -1)...)
							kinds = append(kinds, "u")
							break
						}
					}
					if gi < len(gates) {
						rt.Open(gates[gi])
						gi++
						kinds = append(kinds, "g")
					}
				}
			}
			if len(burst) > 0 {
				e.P.Write(burst)
			}
			rt.Wait()
			check(fmt.Sprintf("after step %d", step))
		}
		// enough credit for everything, then completion
		{
			var fin []byte
			for i := range uploading {
				if uploading[i] {
					uploading[i] = false
					fin = append(fin, wire.Frame(nil, wire.TData, wire.FEndStream, uint32(2*i+1), []byte("the end"), -1)...)
				}
			}
			if len(fin) > 0 {
				e.P.Write(fin)
				rt.Wait()
			}
		}
		for ; gi < len(gates); gi++ {
			rt.Open(gates[gi])
		}
		rt.Wait()
		if !failed {
			at := e.P.NFrames()
			var burst []byte
			if curInit < 1<<20 {
				setSeq++
				burst = append(burst, rt.SettingsFrame(wire.Setting{ID: 4, Val: 1 << 20})...)
				actions = append(actions, rt.Action{At: at, Kind: "settings-window", Val: 1 << 20, SetSeq: setSeq})
			}
			for i := 0; i < k; i++ {
				burst = append(burst, rt.WindowUpdate(uint32(2*i+1), 400000)...)
				actions = append(actions, rt.Action{At: at, Kind: "wu", Stream: uint32(2*i + 1), Val: 400000})
			}
			burst = append(burst, rt.WindowUpdate(0, 400000*uint32(k))...)
			actions = append(actions, rt.Action{At: at, Kind: "wu", Stream: 0, Val: 400000 * int64(k)})
			e.P.Write(burst)
			rt.Wait()
			check("after the final grant")
			if !failed {
				_, st := led.Replay(e.P.Frames(), actions, 1)
				for i := 0; i < k; i++ {
					sid := uint32(2*i + 1)
					if st.Sent[sid] != int64(sizes[i]) || st.Ended[sid] != 1 {
						fail("not-completed", fmt.Sprintf("stream %d: after enough credit was granted %d of %d body bytes arrived and END_STREAM was seen %d times (mode %d)", sid, st.Sent[sid], sizes[i], st.Ended[sid], modes[i]))
						break
					}
				}
				// number of ACKs = number of SETTINGS sent (handshake + setSeq)
				acks := 0
				for _, f := range e.P.Frames() {
					if f.Type == wire.TSettings && f.Ack {
						acks++
					}
					if f.Type == wire.TGoAway || f.Type == wire.TRstStream {
						fail("error-frame", "server sent "+f.String()+" during a conforming flow-control schedule")
					}
				}
				if acks != 1+setSeq {
					fail("settings-acks", fmt.Sprintf("%d SETTINGS sent, %d acknowledged", 1+setSeq, acks))
				}
			}
		}
		r.Inc("data_frames_checked", int64(len(e.P.Frames())))
		e.Finish()
	})
	c01Outcome(r, id, res, triggers, replay, "C06")
	ks := ""
	for _, kd := range kinds {
		ks += kd
		if len(ks) > 40 {
			break
		}
	}
	shape = append(shape, ks)
	for _, s := range sizes {
		shape = append(shape, s/16384)
	}
	r.Inc("actions", int64(len(actions)))
	r.Eval(vf.Hash(shape...), settingsChanged || k >= 2)
	if r.WantSample() {
		r.Sample(map[string]any{"case": id, "streams": k, "initial_window": w0, "sizes": sizes, "modes": modes, "action_kinds": ks})
	}
}

// c06Overflow: a response is part way out, held up by the connection window, when the peer pushes its stream window past
// 2^31-1 (a flow-control error of that stream, RFC 7540 6.9.1). The server resets the stream - and from then on sends
// nothing on it, however much window arrives - while the other responses of the connection go on within their windows.
func c06Overflow(r *vf.Run, t *testing.T, id string, rng *rand.Rand) {
	size := 100000 + rng.Intn(100000)
	connFirst := int64(1000 + rng.Intn(30000))
	otherSize := 1 + rng.Intn(60000)
	replay := map[string]any{"family": "stream-window-overflow-mid-response", "response": size, "connection_credit_before": connFirst, "other_response": otherSize}
	failed := false
	fail := func(rule, detail string) {
		if !failed {
			r.Fail("C06."+rule, id, detail, nil, replay)
		}
		failed = true
	}
	res := rt.RunBubble(t, id, 60*time.Second, func() {
		e := rt.NewServerEnv(id, rt.ServerOpts{})
		tagA, tagB := id+".a", id+".b"
		e.H.SetPlan(tagA, &rt.RespPlan{Status: 200, Body: make([]byte, size), Stream: rng.Intn(3)})
		e.H.SetPlan(tagB, &rt.RespPlan{Status: 200, Body: make([]byte, otherSize)})
		e.P.Write(simpleGet(e.P, 1, tagA))
		rt.Wait() // 65535 bytes out: both windows used up
		e.P.Write(rt.WindowUpdate(0, uint32(connFirst)))
		rt.Wait()
		e.P.Write(rt.WindowUpdate(1, 1<<31-1)) // the stream window is at its maximum now; connFirst more bytes go out
		rt.Wait()
		// connFirst bytes have been taken from the stream window since: anything above that goes past the maximum
		e.P.Write(append(rt.WindowUpdate(1, uint32(connFirst)+uint32(1+rng.Intn(5000))), simpleGet(e.P, 3, tagB)...))
		rt.Wait()
		e.P.Write(append(rt.WindowUpdate(0, 1<<20), rt.WindowUpdate(3, 1<<20)...))
		rt.Wait()
		fs := e.P.Frames()
		var sentA int64
		resetAt, goaway := -1, false
		for i, f := range fs {
			switch {
			case f.Type == wire.TGoAway:
				goaway = true
				if f.Code != 3 {
					fail("wrong-error-code", fmt.Sprintf("stream window pushed past 2^31-1: the server sent %s", f))
				}
			case f.Type == wire.TRstStream && f.Stream == 1 && resetAt < 0:
				resetAt = i
				if f.Code != 3 {
					fail("wrong-error-code", fmt.Sprintf("stream window pushed past 2^31-1: the server sent %s", f))
				}
			case f.Stream == 1 && (f.Type == wire.TData || f.Type == wire.THeaders) && resetAt >= 0:
				fail("frames-after-own-reset", fmt.Sprintf("the server reset stream 1 (frame #%d, FLOW_CONTROL_ERROR) and then sent %s on it (frame #%d) when more window arrived", resetAt, f, i))
			case f.Stream == 1 && f.Type == wire.TData:
				sentA += int64(f.Len)
			}
		}
		_ = sentA
		if resetAt < 0 && !goaway {
			fail("overflow-ignored", fmt.Sprintf("the peer pushed the window of stream 1 past 2^31-1 and the server sent neither RST_STREAM nor GOAWAY; frames:%s", frameSummary(fs[3:])))
		}
		if !goaway && !failed {
			var gotB int64
			endB := false
			for _, f := range rt.FramesFor(fs, 3) {
				if f.Type == wire.TData {
					gotB += int64(f.Len)
				}
				endB = endB || f.EndStream
			}
			if gotB != int64(otherSize) || !endB {
				fail("not-completed", fmt.Sprintf("stream 3 (opened as stream 1 was being reset): %d of %d bytes arrived, END_STREAM %v, although its windows are open", gotB, otherSize, endB))
			}
		}
		r.Inc("stream_window_overflows_mid_response", 1)
		e.Finish()
	})
	c01Outcome(r, id, res, nil, replay, "C06")
	r.Eval(vf.Hash("overflow", size/20000, connFirst/5000), true)
}

// c06ReadError: the body reader of one or more responses fails after part of the body has gone out (the server resets
// those streams); what they used of the connection window stays used. The responses that follow on the same connection
// get exactly what is left of it, not a byte more, and finish once the peer opens it.
func c06ReadError(r *vf.Run, t *testing.T, id string, rng *rand.Rand) {
	nBroken := 1 + rng.Intn(3)
	replay := map[string]any{"family": "body-reader-fails-under-a-tight-connection-window", "broken_responses": nBroken}
	failed := false
	fail := func(rule, detail string) {
		if !failed {
			r.Fail("C06."+rule, id, detail, nil, replay)
		}
		failed = true
	}
	res := rt.RunBubble(t, id, 60*time.Second, func() {
		e := rt.NewServerEnv(id, rt.ServerOpts{PeerSettings: []wire.Setting{{ID: 4, Val: 1 << 20}}})
		next := uint32(1)
		var breakAt []int
		for i := 0; i < nBroken; i++ {
			tag := fmt.Sprintf("%s.%d", id, next)
			at := 1 + []int{16384, 20000, 100, 40000}[rng.Intn(4)] + rng.Intn(10)
			breakAt = append(breakAt, at)
			e.H.SetPlan(tag, &rt.RespPlan{Status: 200, Body: make([]byte, at+30000), Stream: 1 + rng.Intn(2), ReadChunk: []int{0, 16384, 5000}[rng.Intn(3)], ReadErrAfter: at})
			e.P.Write(simpleGet(e.P, next, tag))
			rt.Wait()
			next += 2
		}
		replay["break_after_bytes"] = breakAt
		goodSize := 70000 + rng.Intn(60000)
		good := next
		tag := fmt.Sprintf("%s.%d", id, good)
		e.H.SetPlan(tag, &rt.RespPlan{Status: 200, Body: make([]byte, goodSize), Stream: rng.Intn(3)})
		e.P.Write(simpleGet(e.P, good, tag))
		rt.Wait()
		count := func() (conn int64, per map[uint32]int64, end map[uint32]bool) {
			per, end = map[uint32]int64{}, map[uint32]bool{}
			for _, f := range e.P.Frames() {
				if f.Type == wire.TData {
					conn += int64(f.Len)
					per[f.Stream] += int64(f.Len)
					end[f.Stream] = end[f.Stream] || f.EndStream
				}
				if f.Type == wire.TGoAway {
					fail("error-frame", "the server sent "+f.String()+" after a response body reader failed")
				}
			}
			return
		}
		conn, per, _ := count()
		if conn > 65535 {
			fail("window-exceeded", fmt.Sprintf("the peer has granted 65535 bytes of connection window and received %d bytes of DATA (per stream %v); %d response(s) before stream %d broke off after %v bytes when their body reader failed", conn, per, nBroken, good, breakAt))
		}
		if conn < 65535 && per[good] < int64(goodSize) {
			fail("stalled-with-open-windows", fmt.Sprintf("stream %d still owes %d bytes, its window is open and the connection window has %d left by the peer's count, and the server is quiescent", good, int64(goodSize)-per[good], 65535-conn))
		}
		e.P.Write(rt.WindowUpdate(0, 1<<20))
		rt.Wait()
		_, per, end := count()
		if !failed && (per[good] != int64(goodSize) || !end[good]) {
			fail("not-completed", fmt.Sprintf("stream %d: %d of %d bytes arrived, END_STREAM %v, although its windows are open", good, per[good], goodSize, end[good]))
		}
		r.Inc("responses_broken_off_by_their_body_reader", int64(nBroken))
		e.Finish()
	})
	c01Outcome(r, id, res, nil, replay, "C06")
	r.Eval(vf.Hash("read-error", nBroken), true)
}
