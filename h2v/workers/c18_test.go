package workers

import (
	"io"
	"fmt"
	"math/rand"
	"strings"
	"testing"
	"time"

	"github.com/valyala/fasthttp"

	"h2v/hpackref"
	"h2v/rt"
	"h2v/vf"
	"h2v/wire"
)

// peerSettings is the scripted peer's own view of what it has advertised.
type peerSettings struct {
	table, maxStreams, window, frame, hdrList int64
	push                                     int64
}

func defaultPeerSettings() peerSettings {
	return peerSettings{table: 4096, maxStreams: 1 << 31, window: 65535, frame: 16384, hdrList: 1 << 31, push: 1}
}

func (p *peerSettings) apply(ss []wire.Setting) {
	for _, s := range ss {
		switch s.ID {
		case 1:
			p.table = int64(s.Val)
		case 2:
			p.push = int64(s.Val)
		case 3:
			p.maxStreams = int64(s.Val)
		case 4:
			p.window = int64(s.Val)
		case 5:
			p.frame = int64(s.Val)
		case 6:
			p.hdrList = int64(s.Val)
		}
	}
}

func randSettings(rng *rand.Rand, allowWindowDecrease bool) []wire.Setting {
	var ss []wire.Setting
	for i := rng.Intn(5); i > 0; i-- {
		switch rng.Intn(8) {
		case 0:
			ss = append(ss, wire.Setting{ID: 1, Val: []uint32{0, 1, 64, 4096, 8192, 65536}[rng.Intn(6)]})
		case 1:
			ss = append(ss, wire.Setting{ID: 3, Val: []uint32{1, 2, 5, 100, 1 << 30}[rng.Intn(5)]})
		case 2:
			ss = append(ss, wire.Setting{ID: 4, Val: []uint32{65535, 70000, 1 << 20, 1<<31 - 1}[rng.Intn(4)]})
		case 3:
			ss = append(ss, wire.Setting{ID: 5, Val: []uint32{16384, 16385, 20000, 65536, 1<<24 - 1}[rng.Intn(5)]})
		case 4:
			ss = append(ss, wire.Setting{ID: 6, Val: []uint32{0, 100, 16384, 1 << 20}[rng.Intn(4)]})
		case 5:
			ss = append(ss, wire.Setting{ID: uint16(7 + rng.Intn(100)), Val: rng.Uint32()}) // unknown id: must be ignored
		case 6:
			ss = append(ss, wire.Setting{ID: 2, Val: uint32(rng.Intn(2))})
		case 7: // repeated id inside one frame: the last one wins
			ss = append(ss, wire.Setting{ID: 1, Val: 100}, wire.Setting{ID: 1, Val: []uint32{0, 4096}[rng.Intn(2)]})
		}
	}
	return ss
}

// blockChecker feeds every completed header block of one direction to the strict reference decoder.
type blockChecker struct {
	dec  *hpackref.Dec
	buf  []byte
	seen int
}

func (b *blockChecker) absorb(fs []rt.Frame) string {
	for _, f := range fs[b.seen:] {
		if f.Type == wire.THeaders || f.Type == wire.TContinuation || f.Type == wire.TPushPromise {
			b.buf = append(b.buf, f.Block...)
			if f.BlockDone {
				if _, err := b.dec.DecodeBlock(b.buf); err != nil {
					b.seen = len(fs)
					return fmt.Sprintf("header block on stream %d (%d bytes, %x…): %v", f.Stream, len(b.buf), b.buf[:min(len(b.buf), 24)], err)
				}
				b.buf = nil
			}
		}
	}
	b.seen = len(fs)
	return ""
}

func TestC18(t *testing.T) {
	r := vf.Begin(t, "C18")
	defer r.End()
	defer perturbReport(r)
	r.Describe("PRNG sequences of 1-8 SETTINGS frames (any subset of the six parameters, repeated ids inside a frame, unknown ids, boundary values) interleaved with traffic, in both roles (synctest bubbles). Server role: requests whose responses carry header lists from a few bytes to 200 KiB and bodies straddling every advertised frame size; "+
		"client role: requests with header lists up to 200 KiB and bodies around the frame sizes, more callers than the server's MAX_CONCURRENT_STREAMS. Monitors: at every quiescent point the number of ACKs equals the number of SETTINGS sent; from the ACK on no frame (HEADERS and CONTINUATION included) exceeds the peer's MAX_FRAME_SIZE; streams concurrently open as counted by the scripted server never exceed its MAX_CONCURRENT_STREAMS; "+
		"every header block decodes under a strict reference decoder whose allowed table size follows the peer's HEADER_TABLE_SIZE (and which demands the size update after a reduction); a parameter absent from a later frame keeps its value; the endpoint enforces what it advertises itself (one byte over its MAX_FRAME_SIZE is refused, stream MaxConcurrentStreams+1 is refused, header lists over the limit are refused, the client has sent ENABLE_PUSH=0 and tears down on PUSH_PROMISE); invalid values end the connection (server: GOAWAY with the RFC's code; client: no further HEADERS, callers get errors). "+
		"Distinct = distinct (role, settings-kind sequence, probe) vectors.",
		"x/net Framer for frame lengths; h2v/hpackref strict decoder for table-size conformance")
	n := r.Pick(400, 25000)
	for i := 0; i < n; i++ {
		id := fmt.Sprintf("t%d", i)
		if !r.Want(i, id) {
			continue
		}
		r.Progress(id, "")
		rng := r.Rand(id)
		if i%2 == 0 {
			c18Server(r, t, id, rng)
		} else {
			c18Client(r, t, id, rng)
		}
	}
}

func settingsKinds(ss []wire.Setting) string {
	var sb strings.Builder
	for _, s := range ss {
		fmt.Fprintf(&sb, "%d", min(int(s.ID), 9))
	}
	return sb.String()
}

func c18Server(r *vf.Run, t *testing.T, id string, rng *rand.Rand) {
	nset := 1 + rng.Intn(8)
	probe := []string{"none", "frame-one-byte-over", "stream-over-limit", "header-list-over-limit", "invalid-setting"}[rng.Intn(5)]
	m := 2 + rng.Intn(4)
	hdrLimit := []int{2048, 8192, 0}[rng.Intn(3)]
	var triggers []string
	var kinds []string
	replay := map[string]any{"role": "server", "settings_frames": nset, "probe": probe, "max_concurrent_streams": m, "max_header_list": hdrLimit}
	failed := false
	fail := func(rule, detail string) {
		if !failed {
			r.Fail("C18."+rule, id, detail, triggers, replay)
		}
		failed = true
	}
	res := rt.RunBubble(t, id, 60*time.Second, func() {
		if rng.Intn(12) == 0 {
			// an invalid value in the client's very first SETTINGS frame
			bad := []wire.Setting{{ID: 2, Val: 2}, {ID: 4, Val: 1 << 31}, {ID: 5, Val: 16383}, {ID: 5, Val: 1 << 24}}[rng.Intn(4)]
			pre := []wire.Setting{bad}
			if rng.Intn(2) == 0 {
				pre = append(pre, wire.Setting{ID: bad.ID, Val: map[uint16]uint32{2: 0, 4: 65535, 5: 16384}[bad.ID]})
			}
			want := uint32(1)
			if bad.ID == 4 {
				want = 3
			}
			replay["invalid_setting_in_client_preface"] = fmt.Sprint(pre)
			e := rt.NewServerEnv(id, rt.ServerOpts{MaxConcurrentStreams: m, PeerSettings: pre})
			e.P.Write(simpleGet(e.P, 1, id+".1"))
			rt.Wait()
			ok := false
			for _, f := range e.P.Frames() {
				if f.Type == wire.TGoAway {
					ok = true
					if f.Code != want {
						fail("invalid-setting-wrong-code", fmt.Sprintf("first SETTINGS %v answered with GOAWAY(%s), RFC 7540 6.5.2 wants %s", pre, errName(f.Code), errName(want)))
					}
				}
			}
			if done, _ := e.P.ReadState(); done {
				ok = true
			}
			recs, _, _, _ := e.H.Snapshot()
			if !ok || len(recs) > 0 {
				fail("invalid-setting-accepted", fmt.Sprintf("the client's first SETTINGS frame %v was not treated as a connection error (handlers run afterwards: %d)", pre, len(recs)))
			}
			kinds = append(kinds, "invalid-preface")
			r.Inc("invalid_client_prefaces", 1)
			e.Finish()
			return
		}
		e := rt.NewServerEnv(id, rt.ServerOpts{MaxConcurrentStreams: m, MaxHeaderListSize: hdrLimit})
		ps := defaultPeerSettings()
		bc := &blockChecker{dec: hpackref.NewDec(4096)}
		e.P.Write(rt.WindowUpdate(0, 1<<30))
		sent := 1 // the handshake SETTINGS
		next := uint32(1)
		maxFrameBinding := int64(16384) // what the server may use: the largest value advertised and not yet superseded by an ACKed smaller one
		frameChecked, pendingLower := 0, int64(0)
		checkQ := func(where string) {
			fs := e.P.Frames()
			acks := 0
			for _, f := range fs {
				if f.Type == wire.TSettings && f.Ack {
					acks++
				}
			}
			if acks != sent {
				fail("ack-count", fmt.Sprintf("%s: %d SETTINGS frames sent by the peer, %d acknowledged at quiescence", where, sent, acks))
			}
			// each frame is judged against the limit in force when it was sent: a lower value binds from the ACK on
			for _, f := range fs[frameChecked:] {
				if f.Type == wire.TSettings && f.Ack && pendingLower > 0 {
					maxFrameBinding, pendingLower = pendingLower, 0
				}
				if int64(f.Len) > maxFrameBinding {
					fail("frame-above-peer-max-frame-size", fmt.Sprintf("%s: the server sent %s while the peer's MAX_FRAME_SIZE allows %d", where, f, maxFrameBinding))
					break
				}
			}
			frameChecked = len(fs)
			if d := bc.absorb(fs); d != "" {
				fail("hpack-table-size", where+": the server's "+d+fmt.Sprintf(" (peer's HEADER_TABLE_SIZE is %d)", ps.table))
			}
		}
		request := func(respHdr, respBody int) {
			tag := fmt.Sprintf("%s.%d", id, next)
			pl := &rt.RespPlan{Status: 200, Body: make([]byte, respBody)}
			left := respHdr
			for i := 0; left > 0; i++ {
				n := min(left, 1+rng.Intn(8000))
				pl.Fields = append(pl.Fields, [2]string{fmt.Sprintf("x-big-%d", i), strings.Repeat("v", n)})
				left -= n + 40
			}
			e.H.SetPlan(tag, pl)
			e.P.Write(append(simpleGet(e.P, next, tag), rt.WindowUpdate(next, 1<<20)...))
			next += 2
			rt.Wait()
			if respHdr > 16000 {
				triggers = append(triggers, "resp.headerListAboveOneFrame")
			}
		}
		for k := 0; k < nset && !failed; k++ {
			ss := randSettings(rng, true)
			kinds = append(kinds, settingsKinds(ss))
			old := ps
			ps.apply(ss)
			if ps.frame > maxFrameBinding {
				maxFrameBinding = ps.frame
			}
			if ps.frame < maxFrameBinding {
				pendingLower = ps.frame // binds when the ACK is read
			}
			_ = old
			// the values of one frame are processed in the order they appear (RFC 7540 6.5.3): a table size that is lowered and
			// raised again inside one frame has still been lowered
			for _, st := range ss {
				if st.ID == 1 {
					bc.dec.SetAllowed(st.Val)
				}
			}
			bc.dec.SetAllowed(uint32(ps.table))
			e.P.Write(rt.SettingsFrame(ss...))
			sent++
			rt.Wait()
			checkQ(fmt.Sprintf("after SETTINGS #%d %v", k+1, ss))
			if rng.Intn(2) == 0 && !failed {
				request([]int{10, 300, 5000, 17000, 40000, 200000}[rng.Intn(6)], []int{0, 1, 16383, 16384, 16385, 65536}[rng.Intn(6)])
				checkQ(fmt.Sprintf("after a request following SETTINGS #%d", k+1))
			}
		}
		// a response header block of exactly two or three full frames: the boundary where "the rest fits in one more frame"
		// and "nothing is left" meet. The filler is made of octets whose Huffman code is 8 bits long, so one more character
		// is one more octet of block, and the length is corrected from what the previous attempt produced.
		if !failed && rng.Intn(3) == 0 {
			frameSize := int(ps.frame)
			if pendingLower > 0 {
				frameSize = int(pendingLower)
			}
			mult := 2 + rng.Intn(2)
			target := mult * frameSize
			if target <= 200000 {
				fill := target - 150
				for attempt := 0; attempt < 6 && !failed && fill > 0; attempt++ {
					tag := fmt.Sprintf("%s.%d", id, next)
					sid := next
					e.H.SetPlan(tag, &rt.RespPlan{Status: 200, Body: []byte("after the block"), Fields: [][2]string{{"x-exact", strings.Repeat("X", fill)}}})
					e.P.Write(append(simpleGet(e.P, sid, tag), rt.WindowUpdate(sid, 1<<20)...))
					next += 2
					rt.Wait()
					got := 0
					for _, f := range rt.FramesFor(e.P.Frames(), sid) {
						if f.Type == wire.THeaders || f.Type == wire.TContinuation {
							got += int(f.Len)
						}
					}
					checkQ(fmt.Sprintf("after a response whose header block has %d octets (aiming at %d x %d)", got, mult, frameSize))
					if got == target {
						r.Inc("response_header_blocks_of_exactly_k_full_frames", 1)
						// one more, to see that the connection is still in step after it
						tag2 := fmt.Sprintf("%s.%d", id, next)
						e.P.Write(simpleGet(e.P, next, tag2))
						sid2 := next
						next += 2
						rt.Wait()
						done := false
						for _, f := range rt.FramesFor(e.P.Frames(), sid2) {
							done = done || f.EndStream
						}
						if !done && !failed {
							fail("connection-out-of-step", fmt.Sprintf("after a response header block of exactly %d x %d octets on stream %d the next request (stream %d) got no complete answer; frames on it:%s", mult, frameSize, sid, sid2, frameSummary(rt.FramesFor(e.P.Frames(), sid2))))
						}
						break
					}
					if got == 0 {
						break
					}
					fill += target - got
				}
			}
		}
		// the endpoint's own advertisement
		if !failed {
			own := e.ServerSettings
			switch probe {
			case "frame-one-byte-over":
				limit := int64(16384)
				if v, ok := own[5]; ok {
					limit = int64(v)
				}
				before := e.P.NFrames()
				blk := reqBlock(e.P, next, "probe")
				e.P.Write(rt.Concat(rt.HeaderFrames(next, blk, nil, -1, nil, false)))
				e.P.Write(wire.Frame(nil, wire.TData, wire.FEndStream, next, make([]byte, limit+1), -1))
				rt.Wait()
				ok := e.Served()
				for _, f := range e.P.Frames()[before:] {
					if f.Type == wire.TGoAway && f.Code == 6 {
						ok = true
					}
				}
				if done, _ := e.P.ReadState(); done {
					ok = true
				}
				recs, _, _, _ := e.H.Snapshot()
				for _, rc := range recs {
					if strings.HasSuffix(rc.Tag, "probe") || rc.BodyLen == int(limit+1) {
						ok = false
					}
				}
				if !ok {
					fail("own-max-frame-size-not-enforced", fmt.Sprintf("the server advertises MAX_FRAME_SIZE %d but a DATA frame of %d bytes was neither refused with FRAME_SIZE_ERROR nor did it end the connection (the peer had advertised MAX_FRAME_SIZE %d for its own side)", limit, limit+1, ps.frame))
				}
			case "stream-over-limit":
				adv := int64(own[3])
				var gates []chan struct{}
				before := e.P.NFrames()
				startID := next
				for i := int64(0); i <= adv; i++ {
					tag := fmt.Sprintf("%s.%d", id, next)
					g := e.H.NewGate()
					gates = append(gates, g)
					e.H.SetPlan(tag, &rt.RespPlan{Status: 200, Gate: g})
					e.P.Write(simpleGet(e.P, next, tag))
					next += 2
				}
				rt.Wait()
				_, _, maxRun, _ := e.H.Snapshot()
				refused := 0
				for _, f := range e.P.Frames()[before:] {
					if f.Type == wire.TRstStream && f.Stream >= startID && f.Code == 7 {
						refused++
					}
				}
				if int64(maxRun) > adv || refused < 1 {
					fail("own-max-concurrent-streams-not-enforced", fmt.Sprintf("the server advertises MAX_CONCURRENT_STREAMS %d; with %d streams opened at once %d handlers ran concurrently and %d streams were refused", adv, adv+1, maxRun, refused))
				}
				for _, g := range gates {
					rt.Open(g)
				}
				rt.Wait()
			case "header-list-over-limit":
				if adv, ok := own[6]; ok && adv < 1<<20 {
					tag := fmt.Sprintf("%s.%d", id, next)
					fs := []F{{Name: ":method", Value: "GET"}, {Name: ":scheme", Value: "https"}, {Name: ":path", Value: "/" + tag}, {Name: ":authority", Value: "s.example"}, {Name: "x-vtag", Value: tag}}
					for sz := 0; sz < int(adv)+200; sz += 140 {
						fs = append(fs, F{Name: fmt.Sprintf("x-fill-%d", sz), Value: strings.Repeat("f", 100)})
					}
					e.P.Write(rt.Concat(rt.HeaderFrames(next, e.P.EncodeBlock(fs, nil), nil, -1, nil, true)))
					next += 2
					rt.Wait()
					recs, _, _, _ := e.H.Snapshot()
					for _, rc := range recs {
						if rc.Tag == tag {
							fail("own-max-header-list-size-not-enforced", fmt.Sprintf("the server advertises MAX_HEADER_LIST_SIZE %d but a request with a header list of about %d bytes reached the handler", adv, rc.HdrBytes))
						}
					}
				}
			case "invalid-setting":
				bad := []wire.Setting{{ID: 2, Val: 2}, {ID: 4, Val: 1 << 31}, {ID: 5, Val: 16383}, {ID: 5, Val: 1 << 24}}[rng.Intn(4)]
				want := uint32(1)
				if bad.ID == 4 {
					want = 3
				}
				before := e.P.NFrames()
				frame := []wire.Setting{bad}
				switch rng.Intn(3) {
				case 1: // the same parameter again, valid this time: parameters are processed in order, the first is already an error
					frame = append(frame, wire.Setting{ID: bad.ID, Val: map[uint16]uint32{2: 0, 4: 65535, 5: 16384}[bad.ID]})
					replay["invalid_then_valid_in_one_frame"] = true
				case 2: // surrounded by unrelated valid parameters
					frame = []wire.Setting{{ID: 3, Val: 50}, bad, {ID: 1, Val: 4096}}
				}
				e.P.Write(rt.SettingsFrame(frame...))
				tag := fmt.Sprintf("%s.%d", id, next)
				e.P.Write(simpleGet(e.P, next, tag))
				rt.Wait()
				ok := false
				for _, f := range e.P.Frames()[before:] {
					if f.Type == wire.TGoAway {
						ok = f.Code == want
						if !ok {
							fail("invalid-setting-wrong-code", fmt.Sprintf("SETTINGS %v answered with GOAWAY(%s), RFC 7540 6.5.2 wants %s", bad, errName(f.Code), errName(want)))
						}
					}
				}
				if done, _ := e.P.ReadState(); done && !ok {
					ok = true
				}
				if !ok && !failed {
					fail("invalid-setting-accepted", fmt.Sprintf("SETTINGS %v was not treated as a connection error", bad))
				}
			}
		}
		r.Inc("settings_frames_sent", int64(sent))
		e.Finish()
	})
	c01Outcome(r, id, res, triggers, replay, "C18")
	r.Eval(vf.Hash("server", kinds, probe), true)
	if r.WantSample() {
		replay["settings_kinds"] = kinds
		r.Sample(replay)
	}
}

// gatedReader is a request body whose first Read waits for the gate.
type gatedReader struct {
	gate chan struct{}
	b    []byte
}

func (g *gatedReader) Read(p []byte) (int, error) {
	<-g.gate
	if len(g.b) == 0 {
		return 0, io.EOF
	}
	n := copy(p, g.b)
	g.b = g.b[n:]
	return n, nil
}

func c18Client(r *vf.Run, t *testing.T, id string, rng *rand.Rand) {
	nset := 1 + rng.Intn(6)
	probe := []string{"none", "frame-one-byte-over", "push-promise", "invalid-setting", "concurrency", "frame-size-lowered-mid-body", "frame-size-lowered-mid-body", "acks-while-the-write-loop-is-busy", "push-promise"}[rng.Intn(9)]
	var triggers []string
	var kinds []string
	replay := map[string]any{"role": "client", "settings_frames": nset, "probe": probe}
	failed := false
	fail := func(rule, detail string) {
		if !failed {
			r.Fail("C18."+rule, id, detail, triggers, replay)
		}
		failed = true
	}
	res := rt.RunBubble(t, id, 60*time.Second, func() {
		first := randSettings(rng, false)
		if rng.Intn(12) == 0 {
			// an invalid value in the server's connection preface itself
			bad := []wire.Setting{{ID: 2, Val: 2}, {ID: 4, Val: 1 << 31}, {ID: 5, Val: 16383}, {ID: 5, Val: 1 << 24}}[rng.Intn(4)]
			pre := []wire.Setting{bad}
			if rng.Intn(2) == 0 {
				pre = append(pre, wire.Setting{ID: bad.ID, Val: map[uint16]uint32{2: 0, 4: 65535, 5: 16384}[bad.ID]})
			}
			replay["invalid_setting_in_server_preface"] = fmt.Sprint(pre)
			e := rt.NewClientEnv(id, rt.ClientOpts{PeerSettings: pre})
			if e.HandshakeErr == nil {
				c := e.Do(id+".x", func(req *fasthttp.Request) { req.SetRequestURI("https://s.example/x") })
				rt.Wait()
				time.Sleep(time.Second)
				rt.Wait()
				if len(e.RequestsSeen()) > 0 {
					fail("invalid-setting-accepted", fmt.Sprintf("the server's preface carried SETTINGS %v; Handshake succeeded and the client opened a stream on the connection", pre))
				} else if done, err, _ := c.Outcome(); !done || err == nil {
					fail("invalid-setting-accepted", fmt.Sprintf("the server's preface carried SETTINGS %v; Handshake succeeded and a request was neither sent nor failed (done=%v err=%v)", pre, done, err))
				}
			}
			kinds = append(kinds, "invalid-preface")
			r.Inc("invalid_server_prefaces", 1)
			e.Finish()
			return
		}
		e := rt.NewClientEnv(id, rt.ClientOpts{PeerSettings: first})
		if e.HandshakeErr != nil {
			fail("handshake", e.HandshakeErr.Error())
			return
		}
		ps := defaultPeerSettings()
		ps.apply(first)
		kinds = append(kinds, settingsKinds(first))
		bc := &blockChecker{dec: hpackref.NewDec(4096)}
		bc.dec.SetAllowed(uint32(ps.table))
		e.P.Write(rt.WindowUpdate(0, 1<<30))
		sent := 1
		maxFrameBinding := max(int64(16384), ps.frame)
		frameChecked, pendingLower := 0, int64(0)
		nreq := 0
		var calls []*rt.Call
		checkQ := func(where string) {
			fs := e.P.Frames()
			acks := 0
			for _, f := range fs {
				if f.Type == wire.TSettings && f.Ack {
					acks++
				}
			}
			if acks != sent {
				fail("ack-count", fmt.Sprintf("%s: %d SETTINGS frames sent by the server, %d acknowledged at quiescence", where, sent, acks))
			}
			// each frame is judged against the limit in force when it was sent: a lower value binds from the ACK on
			for _, f := range fs[frameChecked:] {
				if f.Type == wire.TSettings && f.Ack && pendingLower > 0 {
					maxFrameBinding, pendingLower = pendingLower, 0
				}
				if int64(f.Len) > maxFrameBinding {
					fail("frame-above-peer-max-frame-size", fmt.Sprintf("%s: the client sent %s while the server's MAX_FRAME_SIZE allows %d", where, f, maxFrameBinding))
					break
				}
			}
			frameChecked = len(fs)
			if d := bc.absorb(fs); d != "" {
				fail("hpack-table-size", where+": the client's "+d+fmt.Sprintf(" (server's HEADER_TABLE_SIZE is %d)", ps.table))
			}
		}
		// ENABLE_PUSH=0 must have been advertised by a client that treats PUSH_PROMISE as a connection error
		if v, ok := e.ClientSettings[2]; !ok || v != 0 {
			fail("enable-push-not-disabled", fmt.Sprintf("the client's SETTINGS are %v: SETTINGS_ENABLE_PUSH=0 is missing although it tears the connection down on PUSH_PROMISE", e.ClientSettings))
		}
		streamedBody := false
		request := func(hdr, body int) *rt.Call {
			nreq++
			streamed := streamedBody
			tag := fmt.Sprintf("%s.%d", id, nreq)
			c := e.Do(tag, func(req *fasthttp.Request) {
				req.SetRequestURI("https://s.example/" + tag)
				req.Header.SetMethod("POST")
				req.Header.Add("x-vtag", tag)
				left := hdr
				for i := 0; left > 0; i++ {
					n := min(left, 1+rng.Intn(8000))
					req.Header.Add(fmt.Sprintf("x-big-%d", i), strings.Repeat("v", n))
					left -= n + 40
				}
				if streamed {
					req.SetBodyStream(&slowReader{b: make([]byte, body), chunk: 40000}, -1)
				} else {
					req.SetBody(make([]byte, body))
				}
			})
			calls = append(calls, c)
			if hdr > 16000 {
				triggers = append(triggers, "req.headerListAboveOneFrame")
			}
			return c
		}
		answered := map[uint32]bool{}
		answerAll := func() {
			var out []byte
			for _, s := range e.RequestsSeen() {
				if s.EndStream > 0 && !answered[s.Stream] {
					answered[s.Stream] = true
					out = append(out, rt.WindowUpdate(s.Stream, 1<<20)...)
					out = append(out, rt.Concat(rt.HeaderFrames(s.Stream, e.P.EncodeBlock([]F{{Name: ":status", Value: "204"}}, nil), nil, -1, nil, true))...)
				} else if !answered[s.Stream] {
					out = append(out, rt.WindowUpdate(s.Stream, 1<<20)...)
				}
			}
			if len(out) > 0 {
				e.P.Write(out)
				rt.Wait()
			}
		}
		for k := 0; k < nset && !failed; k++ {
			ss := randSettings(rng, false)
			kinds = append(kinds, settingsKinds(ss))
			old := ps
			ps.apply(ss)
			if ps.frame > maxFrameBinding {
				maxFrameBinding = ps.frame
			}
			if ps.frame < maxFrameBinding {
				pendingLower = ps.frame
			}
			_ = old
			// the values of one frame are processed in the order they appear (RFC 7540 6.5.3): a table size that is lowered and
			// raised again inside one frame has still been lowered
			for _, st := range ss {
				if st.ID == 1 {
					bc.dec.SetAllowed(st.Val)
				}
			}
			bc.dec.SetAllowed(uint32(ps.table))
			e.P.Write(rt.SettingsFrame(ss...))
			sent++
			rt.Wait()
			checkQ(fmt.Sprintf("after SETTINGS #%d %v", k+1, ss))
			if rng.Intn(2) == 0 && !failed {
				request([]int{10, 300, 5000, 17000, 40000, 200000}[rng.Intn(6)], []int{0, 1, 16383, 16384, 16385, 65536}[rng.Intn(6)])
				rt.Wait()
				answerAll()
				answerAll()
				checkQ(fmt.Sprintf("after a request following SETTINGS #%d", k+1))
			}
		}
		// a request header block of exactly one, two or three full frames (see the server role for how the length is reached)
		if !failed && rng.Intn(3) == 0 {
			frameSize := int(ps.frame)
			if pendingLower > 0 {
				frameSize = int(pendingLower)
			}
			mult := 1 + rng.Intn(3)
			target := mult * frameSize
			if target <= 200000 {
				fill := target - 150
				for attempt := 0; attempt < 6 && !failed && fill > 0; attempt++ {
					before := len(e.RequestsSeen())
					nreq++
					tag := fmt.Sprintf("%s.x%d", id, nreq)
					n := fill
					calls = append(calls, e.Do(tag, func(req *fasthttp.Request) {
						req.SetRequestURI("https://s.example/" + tag)
						req.Header.Add("x-vtag", tag)
						req.Header.Add("x-exact", strings.Repeat("X", n))
					}))
					rt.Wait()
					fs := e.P.Frames()
					var sid uint32
					got, ended := 0, false
					for i := len(fs) - 1; i >= 0 && sid == 0; i-- {
						if fs[i].Type == wire.THeaders {
							sid = fs[i].Stream
						}
					}
					for _, f := range rt.FramesFor(fs, sid) {
						if f.Type == wire.THeaders || f.Type == wire.TContinuation {
							got += int(f.Len)
							ended = ended || f.EndHeaders
						}
					}
					checkQ(fmt.Sprintf("after a request whose header block has %d octets (aiming at %d x %d)", got, mult, frameSize))
					if sid != 0 && !ended && !failed {
						fail("header-block-not-ended", fmt.Sprintf("the request on stream %d was sent as a header block of %d octets (%d x MAX_FRAME_SIZE %d) in which no frame carries END_HEADERS, and the client is quiescent", sid, got, got/frameSize, frameSize))
					}
					if len(e.RequestsSeen()) == before && !failed {
						break
					}
					answerAll()
					if got == target {
						r.Inc("request_header_blocks_of_exactly_k_full_frames", 1)
						break
					}
					if got == 0 {
						break
					}
					fill += target - got
				}
			}
		}
		if !failed {
			switch probe {
			case "concurrency":
				lim := int64(1 + rng.Intn(3))
				ps.maxStreams = lim
				e.P.Write(rt.SettingsFrame(wire.Setting{ID: 3, Val: uint32(lim)}))
				sent++
				rt.Wait()
				base := len(e.RequestsSeen())
				for i := int64(0); i < lim+3; i++ {
					request(10, 0)
				}
				rt.Wait()
				open := len(e.RequestsSeen()) - base
				if int64(open) > lim {
					fail("peer-max-concurrent-streams-exceeded", fmt.Sprintf("the server allows %d concurrent streams; the client opened %d at once", lim, open))
				}
				answerAll()
			case "frame-size-lowered-mid-body":
				// the server allows big frames and a tiny window; an upload gets stuck; the server lowers MAX_FRAME_SIZE,
				// the client acknowledges; then the window opens: everything after the ACK obeys the new value
				big := []uint32{32768, 65536, 1 << 20}[rng.Intn(3)]
				low := []uint32{16384, 16385, 20000}[rng.Intn(3)]
				e.P.Write(rt.SettingsFrame(wire.Setting{ID: 5, Val: big}, wire.Setting{ID: 4, Val: uint32([]int{0, 1000, 20000}[rng.Intn(3)])}))
				sent++
				ps.apply([]wire.Setting{{ID: 5, Val: big}})
				if int64(big) > maxFrameBinding {
					maxFrameBinding = int64(big)
				}
				rt.Wait()
				checkQ("after raising MAX_FRAME_SIZE")
				base := len(e.RequestsSeen())
				streamedBody = rng.Intn(2) == 0
				request(10, 150000+rng.Intn(100000))
				streamedBody = false
				rt.Wait()
				e.P.Write(rt.SettingsFrame(wire.Setting{ID: 5, Val: low}))
				sent++
				ps.apply([]wire.Setting{{ID: 5, Val: low}})
				pendingLower = int64(low)
				rt.Wait()
				checkQ("after lowering MAX_FRAME_SIZE during a blocked upload")
				if seen := e.RequestsSeen(); len(seen) > base {
					sid := seen[len(seen)-1].Stream
					e.P.Write(append(rt.WindowUpdate(sid, 1<<20), rt.WindowUpdate(0, 1<<20)...))
					rt.Wait()
					checkQ(fmt.Sprintf("after the window reopened (MAX_FRAME_SIZE %d lowered to %d and acknowledged while the upload was blocked)", big, low))
					r.Inc("uploads_resumed_after_a_frame_size_decrease", 1)
				}
				answerAll()
			case "frame-one-byte-over":
				request(10, 0)
				rt.Wait()
				seen := e.RequestsSeen()
				if len(seen) > 0 {
					sid := seen[len(seen)-1].Stream
					lim := int64(16384)
					if v, ok := e.ClientSettings[5]; ok {
						lim = int64(v)
					}
					out := rt.Concat(rt.HeaderFrames(sid, e.P.EncodeBlock([]F{{Name: ":status", Value: "200"}}, nil), nil, -1, nil, false))
					out = append(out, wire.Frame(nil, wire.TData, wire.FEndStream, sid, make([]byte, lim+1), -1)...)
					e.P.Write(out)
					rt.Wait()
					c := calls[len(calls)-1]
					if done, err, _ := c.Outcome(); done && err == nil {
						fail("own-max-frame-size-not-enforced", fmt.Sprintf("the client advertises MAX_FRAME_SIZE %d (default when absent) but accepted a DATA frame of %d bytes and reported success", lim, lim+1))
					}
				}
			case "acks-while-the-write-loop-is-busy":
				// the client's write loop is parked inside the Read of a streamed request body while 2-4 SETTINGS frames arrive:
				// every one of them is acknowledged, one ACK each, once the loop is back
				gateR := &gatedReader{gate: make(chan struct{}), b: make([]byte, 3000)}
				tag := fmt.Sprintf("%s.gated", id)
				calls = append(calls, e.Do(tag, func(req *fasthttp.Request) {
					req.SetRequestURI("https://s.example/" + tag)
					req.Header.SetMethod("POST")
					req.Header.Add("x-vtag", tag)
					req.SetBodyStream(gateR, -1)
				}))
				rt.Wait()
				k := 2 + rng.Intn(3)
				for i := 0; i < k; i++ {
					ss := []wire.Setting{{ID: 3, Val: uint32(50 + i)}}
					ps.apply(ss)
					e.P.Write(rt.SettingsFrame(ss...))
					sent++
					if rng.Intn(2) == 0 {
						rt.Wait()
					}
				}
				rt.Wait()
				close(gateR.gate)
				rt.Wait()
				checkQ(fmt.Sprintf("after %d SETTINGS frames that arrived while the write loop was reading a request body", k))
				r.Inc("settings_frames_received_while_the_write_loop_was_parked", int64(k))
				answerAll()
				answerAll()
			case "push-promise":
				request(10, 0)
				rt.Wait()
				seen := e.RequestsSeen()
				if len(seen) > 0 {
					sid := seen[len(seen)-1].Stream
					// where the promise lands: on the request in flight, on a stream whose response has just ended, on a stream
					// the client never opened, or on stream 0 - ENABLE_PUSH=0 makes each of them a connection error (8.2, 6.6)
					where := rng.Intn(4)
					replay["push_promise_on"] = []string{"the stream in flight", "a stream that has been answered", "a stream never opened", "stream 0"}[where]
					switch where {
					case 1:
						answerAll()
					case 2:
						sid += 40
					case 3:
						sid = 0
					}
					e.P.Write(wire.Frame(nil, wire.TPushPromise, wire.FEndHeaders, sid, append(wire.U32(2), e.P.EncodeBlock([]F{{Name: ":method", Value: "GET"}}, nil)...), -1))
					rt.Wait()
					before := len(e.RequestsSeen())
					request(10, 0)
					rt.Wait()
					if len(e.RequestsSeen()) > before {
						fail("push-promise-tolerated", "the client advertises ENABLE_PUSH=0, received PUSH_PROMISE, and kept opening streams on the connection")
					}
				}
			case "invalid-setting":
				bad := []wire.Setting{{ID: 2, Val: 2}, {ID: 4, Val: 1 << 31}, {ID: 5, Val: 16383}, {ID: 5, Val: 1 << 24}}[rng.Intn(4)]
				frame := []wire.Setting{bad}
				switch rng.Intn(3) {
				case 1:
					frame = append(frame, wire.Setting{ID: bad.ID, Val: map[uint16]uint32{2: 0, 4: 65535, 5: 16384}[bad.ID]})
					replay["invalid_then_valid_in_one_frame"] = true
				case 2:
					frame = []wire.Setting{{ID: 3, Val: 50}, bad, {ID: 1, Val: 4096}}
				}
				e.P.Write(rt.SettingsFrame(frame...))
				rt.Wait()
				before := len(e.RequestsSeen())
				c := request(10, 0)
				rt.Wait()
				time.Sleep(time.Second)
				rt.Wait()
				if len(e.RequestsSeen()) > before {
					fail("invalid-setting-accepted", fmt.Sprintf("the server sent SETTINGS %v and the client went on opening streams on the connection", bad))
				} else if done, err, _ := c.Outcome(); !done || err == nil {
					fail("invalid-setting-accepted", fmt.Sprintf("after SETTINGS %v a new request was neither sent nor failed (done=%v err=%v)", bad, done, err))
				}
			}
		}
		r.Inc("settings_frames_sent", int64(sent))
		e.Finish()
	})
	c01Outcome(r, id, res, triggers, replay, "C18")
	r.Eval(vf.Hash("client", kinds, probe), true)
	if r.WantSample() {
		replay["settings_kinds"] = kinds
		r.Sample(replay)
	}
}
