package workers

import (
	"bufio"
	"bytes"
	"errors"
	"fmt"
	"io"
	"math/rand"
	"os"
	"path/filepath"
	"runtime"
	"runtime/debug"
	"strings"
	"testing"

	http2 "github.com/dgrr/http2"
	xh2 "golang.org/x/net/http2"

	"h2v/hpackref"
	"h2v/pooltrack"
	"h2v/vf"
	"h2v/wire"
)

// structurallyImpossible is the harness' own reading of RFC 7540 4.2/6.x: frames whose
// fixed-size or padding structure cannot be right whatever the connection state.
func structurallyImpossible(typ, flags byte, payload []byte) (bool, string) {
	n := len(payload)
	padded := func(min int) (bool, string) {
		if flags&wire.FPadded == 0 {
			if n < min {
				return true, "shorter than its fixed fields"
			}
			return false, ""
		}
		if n < 1 {
			return true, "PADDED without a pad length octet"
		}
		if int(payload[0]) > n-1-min {
			return true, "padding does not fit in the payload"
		}
		return false, ""
	}
	switch typ {
	case wire.TData:
		return padded(0)
	case wire.THeaders:
		min := 0
		if flags&wire.FPriority != 0 {
			min = 5
		}
		return padded(min)
	case wire.TPriority:
		if n != 5 {
			return true, "PRIORITY length != 5"
		}
	case wire.TRstStream:
		if n != 4 {
			return true, "RST_STREAM length != 4"
		}
	case wire.TSettings:
		if n%6 != 0 {
			return true, "SETTINGS length not a multiple of 6"
		}
		if flags&wire.FAck != 0 && n != 0 {
			return true, "SETTINGS ACK with a payload"
		}
	case wire.TPushPromise:
		return padded(4)
	case wire.TPing:
		if n != 8 {
			return true, "PING length != 8"
		}
	case wire.TGoAway:
		if n < 8 {
			return true, "GOAWAY shorter than 8"
		}
	case wire.TWindowUpdate:
		if n != 4 {
			return true, "WINDOW_UPDATE length != 4"
		}
	}
	return false, ""
}

func specFromXnet(f xh2.Frame) (fspec, bool) {
	h := f.Header()
	s := fspec{Type: byte(h.Type), Stream: h.StreamID}
	switch x := f.(type) {
	case *xh2.DataFrame:
		s.Data, s.EndStream = append([]byte{}, x.Data()...), x.StreamEnded()
	case *xh2.HeadersFrame:
		s.Data, s.EndStream, s.EndHeaders, s.Priority = append([]byte{}, x.HeaderBlockFragment()...), x.StreamEnded(), x.HeadersEnded(), x.HasPriority()
		s.Dep, s.Weight = x.Priority.StreamDep, x.Priority.Weight
	case *xh2.PriorityFrame:
		s.Dep, s.Weight = x.StreamDep, x.Weight
	case *xh2.RSTStreamFrame:
		s.Code = uint32(x.ErrCode)
	case *xh2.SettingsFrame:
		s.Ack = x.IsAck()
		for i := 0; i < x.NumSettings(); i++ {
			st := x.Setting(i)
			s.Settings = append(s.Settings, wire.Setting{ID: uint16(st.ID), Val: st.Val})
		}
	case *xh2.PushPromiseFrame:
		s.Promised, s.Data, s.EndHeaders = x.PromiseID, append([]byte{}, x.HeaderBlockFragment()...), x.HeadersEnded()
	case *xh2.PingFrame:
		s.Data, s.Ack = append([]byte{}, x.Data[:]...), x.IsAck()
	case *xh2.GoAwayFrame:
		s.Last, s.Code, s.Data = x.LastStreamID, uint32(x.ErrCode), append([]byte{}, x.DebugData()...)
	case *xh2.WindowUpdateFrame:
		s.Incr = x.Increment
	case *xh2.ContinuationFrame:
		s.Data, s.EndHeaders = append([]byte{}, x.HeaderBlockFragment()...), x.HeadersEnded()
	default:
		return s, false
	}
	return s, true
}

func settingsValuesValid(ss []wire.Setting) bool {
	for _, s := range ss {
		switch s.ID {
		case 2:
			if s.Val > 1 {
				return false
			}
		case 4:
			if s.Val > 1<<31-1 {
				return false
			}
		case 5:
			if s.Val < 16384 || s.Val > 1<<24-1 {
				return false
			}
		}
	}
	return true
}

type c16ctx struct {
	r        *vf.Run
	trk      *pooltrack.Tracker
	inputLog *os.File
	alloc    int
}

// readOne runs one ReadFrameFromWithSize on input and applies all monitors.
func (c *c16ctx) readOne(id string, input []byte, max uint32, shape uint64) {
	r := c.r
	hx := fmt.Sprintf("%x", input[:min(len(input), 96)])
	replay := map[string]any{"input_hex_prefix": hx, "input_len": len(input), "max": max}
	if c.inputLog != nil {
		c.inputLog.Truncate(0)
		c.inputLog.WriteAt([]byte(id+" "+hx+"\n"), 0)
	}
	// what the bytes say
	var typ, flags byte
	var length int
	haveHeader := len(input) >= 9
	if haveHeader {
		length = int(input[0])<<16 | int(input[1])<<8 | int(input[2])
		typ, flags = input[3], input[4]
	}
	complete := haveHeader && len(input) >= 9+length
	src := bytes.NewReader(input)
	br := bufio.NewReaderSize(src, 4096)
	measure := c.alloc%16 == 0 || (haveHeader && length > int(max))
	c.alloc++
	var m0, m1 runtime.MemStats
	if measure {
		runtime.ReadMemStats(&m0)
	}
	var fr *http2.FrameHeader
	var err error
	panicked := false
	r.Guard("C16.frame-parse-panic", id, nil, replay, func() {
		defer func() {
			if e := recover(); e != nil {
				panicked = true
				panic(e)
			}
		}()
		fr, err = http2.ReadFrameFromWithSize(br, max)
	})
	if measure {
		runtime.ReadMemStats(&m1)
		delta := int64(m1.TotalAlloc - m0.TotalAlloc)
		r.Max("max.alloc_bytes_per_read", delta)
		bound := int64(3*(9+min(length, int(max))) + 32*1024)
		if haveHeader && length > int(max) {
			bound = 32 * 1024
		}
		if delta > bound {
			r.Fail("C16.frame-alloc-unbounded", id, fmt.Sprintf("reading a frame announcing %d bytes with limit %d allocated %d bytes (bound %d)", length, max, delta, bound), nil, replay)
		}
		r.Inc("alloc_measured", 1)
	}
	if panicked {
		r.Eval(shape, true)
		return
	}
	consumed := len(input) - (br.Buffered() + src.Len())
	switch {
	case err == nil:
		r.Inc("frames_parsed_ok", 1)
		if !complete {
			r.Fail("C16.frame-from-truncated-input", id, fmt.Sprintf("input has %d bytes, the header announces %d, yet a frame was returned", len(input), length), nil, replay)
			break
		}
		if length > int(max) {
			r.Fail("C16.frame-oversized-accepted", id, fmt.Sprintf("frame of %d bytes accepted with negotiated maximum %d", length, max), nil, replay)
		}
		if imp, why := structurallyImpossible(typ, flags, input[9:9+length]); imp {
			r.Fail("C16.frame-impossible-structure-accepted", id, fmt.Sprintf("type %d flags %#x length %d: %s, but it parsed without error", typ, flags, length, why), nil, replay)
		}
		if consumed != 9+length {
			r.Fail("C16.frame-consumed-wrong-length", id, fmt.Sprintf("consumed %d bytes for a frame of 9+%d", consumed, length), nil, replay)
		}
		// differential on fields where x/net accepts the same bytes
		xf := xh2.NewFramer(io.Discard, bytes.NewReader(input[:9+length]))
		xf.AllowIllegalReads = true
		xf.SetMaxReadFrameSize(1<<24 - 1)
		if f, xerr := xf.ReadFrame(); xerr == nil {
			if s, ok := specFromXnet(f); ok {
				if d := sutCompare(s, fr, length); d != "" {
					r.Fail("C16.frame-fields-mismatch", id, fmt.Sprintf("%s: %s", s, d), nil, replay)
				}
				r.Inc("frames_compared_with_xnet", 1)
			}
		}
		http2.ReleaseFrameHeader(fr)
	case errors.Is(err, http2.ErrUnknownFrameType):
		r.Inc("unknown_type", 1)
		if haveHeader && length > int(max) {
			// "unknown type" is the one error callers treat as skip-and-carry-on: an oversized frame must not get it
			r.Fail("C16.frame-oversized-accepted", id, fmt.Sprintf("frame of unknown type %d announcing %d bytes with negotiated maximum %d was skipped (ErrUnknownFrameType, %d bytes drawn) instead of refused for its size", typ, length, max, consumed), nil, replay)
		}
		if complete && length <= int(max) && consumed != 9+length {
			r.Fail("C16.unknown-type-not-skipped", id, fmt.Sprintf("unknown type %d: consumed %d bytes, the frame has 9+%d", typ, consumed, length), nil, replay)
		}
	default:
		r.Inc("frames_rejected", 1)
		if complete && length <= int(max) && typ <= 9 {
			if imp, _ := structurallyImpossible(typ, flags, input[9:9+length]); !imp {
				// well-formed by structure: only SETTINGS value errors may be rejected at this level
				sOK := true
				if typ == wire.TSettings && flags&wire.FAck == 0 {
					var ss []wire.Setting
					for i := 0; i+6 <= length; i += 6 {
						ss = append(ss, wire.Setting{ID: uint16(input[9+i])<<8 | uint16(input[10+i]), Val: uint32(input[11+i])<<24 | uint32(input[12+i])<<16 | uint32(input[13+i])<<8 | uint32(input[14+i])})
					}
					sOK = settingsValuesValid(ss)
				}
				if sOK {
					r.Fail("C16.frame-wellformed-rejected", id, fmt.Sprintf("type %d flags %#x length %d is structurally fine and within the limit, but the reader returned %v", typ, flags, length, err), nil, replay)
				}
			}
		}
	}
	// pool sanity right after every read that did not return a frame
	if err != nil {
		c.poolProbe(id, replay)
	}
	for _, ev := range c.trk.Drain() {
		r.Fail("C16.pool-"+ev.What, id, fmt.Sprintf("%s %s %s\n  now:  %s\n  prev: %s", ev.What, ev.Kind, ev.Obj, ev.Stack, ev.Prev), nil, replay)
	}
	r.Eval(shape, true)
}

// poolProbe acquires a batch of every pooled kind and requires distinct objects.
func (c *c16ctx) poolProbe(id string, replay any) {
	const n = 6
	seen := map[any]bool{}
	var frs []*http2.FrameHeader
	for i := 0; i < n; i++ {
		fr := http2.AcquireFrameHeader()
		if seen[fr] {
			c.r.Fail("C16.pool-two-owners", id, "after a failed read two AcquireFrameHeader calls returned the same object", nil, replay)
		}
		seen[fr] = true
		frs = append(frs, fr)
	}
	var bodies []http2.Frame
	for t := http2.FrameData; t <= http2.FrameContinuation; t++ {
		for i := 0; i < n; i++ {
			f := http2.AcquireFrame(t)
			if seen[f] {
				c.r.Fail("C16.pool-two-owners", id, fmt.Sprintf("after a failed read two AcquireFrame(%s) calls returned the same object", t), nil, replay)
			}
			seen[f] = true
			bodies = append(bodies, f)
		}
	}
	rel := map[any]bool{}
	for _, f := range bodies {
		if !rel[f] {
			rel[f] = true
			http2.ReleaseFrame(f)
		}
	}
	for _, fr := range frs {
		if rel[fr] {
			continue
		}
		rel[fr] = true
		// no body attached: use the pool directly through a body-less release is not offered; attach a fresh PING
		fr.SetBody(http2.AcquireFrame(http2.FramePing))
		http2.ReleaseFrameHeader(fr)
	}
	c.r.Inc("pool_probes", 1)
}

func TestC16(t *testing.T) {
	r := vf.Begin(t, "C16")
	defer r.End()
	r.Describe("ReadFrameFromWithSize on: valid frame streams truncated at every offset; frames with lying length fields; every type x wrong fixed sizes; padding that does not fit; frames one byte over / far over the negotiated size; "+
		"bit/byte mutations; PRNG bytes; the repository's fuzz corpora as seeds. HPACK Next on PRNG/mutated bytes. Monitors per input: no panic, fields equal x/net's reading, exactly 9+length consumed, impossible structures and oversize rejected, "+
		"allocation per read bounded (TotalAlloc delta, sampled), pool tracker (no double release / acquire-while-held) and a distinct-objects probe after every failed read; HPACK: progress per step and output bounded by input. "+
		"Distinct = distinct (family, type, flags, length class, outcome class).",
		"x/net/http2 Framer for field comparison on inputs it accepts; the structural oracle (fixed sizes, padding) is the harness' own reading of RFC 7540 sections 4.2 and 6",
		"allocation is measured with runtime.MemStats.TotalAlloc around the call with GC off in a single-threaded worker")

	debug.SetGCPercent(-1)
	defer debug.SetGCPercent(100)
	trk := pooltrack.New()
	trk.Stacks = r.Only != "" || os.Getenv("VERIF_POOL_STACKS") != ""
	trk.Install()
	defer pooltrack.Uninstall()
	c := &c16ctx{r: r, trk: trk}
	if p := os.Getenv("VERIF_PROGRESS"); p != "" {
		c.inputLog, _ = os.OpenFile(p+".input", os.O_CREATE|os.O_WRONLY|os.O_TRUNC, 0o644)
	}
	gcEvery := 0
	tick := func() {
		gcEvery++
		if gcEvery%4000 == 0 {
			runtime.GC()
		}
	}

	// ---- a corpus of valid frames --------------------------------------------------
	var corpus []fspec
	blk, _ := hpackref.NewEnc(4096).Field(nil, F{Name: ":method", Value: "GET"}, hpackref.Choice{})
	for _, n := range []int{0, 1, 9, 100, 1000} {
		d := make([]byte, n)
		rand.New(rand.NewSource(int64(n))).Read(d)
		corpus = append(corpus,
			fspec{Type: wire.TData, Stream: 1, Data: d, EndStream: n%2 == 0},
			fspec{Type: wire.TData, Stream: 3, Data: d, Padded: true, PadLen: n % 256},
			fspec{Type: wire.THeaders, Stream: 5, Data: append(append([]byte{}, blk...), d...), EndHeaders: true, Priority: n%2 == 1, Dep: 1, Weight: 7, Padded: n == 9, PadLen: 5},
			fspec{Type: wire.TContinuation, Stream: 5, Data: d, EndHeaders: true},
			fspec{Type: wire.TGoAway, Last: 7, Code: 2, Data: d},
			fspec{Type: wire.TPushPromise, Stream: 1, Promised: 2, Data: d, Padded: n == 100, PadLen: 3},
		)
	}
	corpus = append(corpus,
		fspec{Type: wire.TPriority, Stream: 3, Dep: 1, Weight: 3},
		fspec{Type: wire.TRstStream, Stream: 3, Code: 8},
		fspec{Type: wire.TSettings, Settings: []wire.Setting{{ID: 1, Val: 100}, {ID: 4, Val: 70000}, {ID: 5, Val: 16384}}},
		fspec{Type: wire.TSettings, Ack: true},
		fspec{Type: wire.TPing, Data: []byte("abcdefgh")},
		fspec{Type: wire.TWindowUpdate, Stream: 0, Incr: 1000},
	)

	ci := 0
	next := func(kind string) (string, bool) {
		ci++
		id := fmt.Sprintf("%s/%d", kind, ci)
		return id, r.Want(ci, id)
	}

	// ---- (1) every truncation of valid frames and of two-frame streams ------------------
	for i, s := range corpus {
		b := s.bytesOf()
		b2 := append(append([]byte{}, b...), corpus[(i+7)%len(corpus)].bytesOf()...)
		step := 1
		if !r.Thorough() && len(b) > 300 {
			step = 37
		}
		for cut := 0; cut <= len(b); cut += step {
			if id, ok := next("trunc"); ok {
				c.readOne(id, b[:cut], 16384, vf.Hash("trunc", s.Type, s.Padded, cut < 9, cut == len(b)))
				tick()
			}
		}
		if id, ok := next("trunc2"); ok {
			c.readOne(id, b2, 16384, vf.Hash("two", s.Type))
		}
	}
	r.Exhaustive("truncation of each corpus frame at every offset (thorough; quick strides long payloads)")

	// ---- (2) structure: every type x lengths around the fixed sizes x flag sets ------------
	for typ := 0; typ <= 12; typ++ {
		for _, flags := range []byte{0, 0x1, 0x4, 0x8, 0x20, 0x28, 0x2d, 0xff} {
			for n := 0; n <= 20; n++ {
				for _, first := range []byte{0, 1, byte(n), byte(max(n-1, 0)), byte(max(n-5, 0)), byte(max(n-6, 0)), 255} {
					id, ok := next("struct")
					if !ok {
						continue
					}
					p := make([]byte, n)
					for k := range p {
						p[k] = byte(k * 7)
					}
					if n > 0 {
						p[0] = first
					}
					if typ == wire.TSettings && n >= 6 {
						copy(p, []byte{0, 3, 0, 0, 0, 9, 0, 1, 0, 0, 1, 0, 0, 6, 0, 0, 0, 5})
					}
					in := wire.Frame(nil, byte(typ), flags, uint32(1+2*(n%3)), p, -1)
					in = append(in, sentinelPing...)
					c.readOne(id, in, 16384, vf.Hash("struct", typ, flags, n, first))
					tick()
				}
			}
		}
	}
	r.Exhaustive("frame type 0..12 x 8 flag sets x payload length 0..20 x 7 first-octet values")

	// ---- (3) size limit: lengths around each negotiated maximum; lying length fields ---------
	for _, mx := range []uint32{16384, 16385, 20000, 65536, 1<<24 - 1} {
		for _, typ := range []byte{wire.TData, wire.THeaders, wire.TContinuation, wire.TPing, wire.TSettings, wire.TGoAway, 0x42} {
			for _, over := range []int{-1, 0, 1, 2, 1000, 1 << 20} {
				n := int(mx) + over
				if n > 1<<24-1 || (mx > 70000 && over >= 0 && !r.Thorough()) {
					continue
				}
				if id, ok := next("limit"); ok {
					have := min(n, 64) // the payload is not there: the reader must decide on the header alone
					in := wire.Frame(nil, typ, 0, 1, make([]byte, have), n)
					c.readOne(id, in, mx, vf.Hash("limit", mx, typ, over))
					if n <= 70000 || r.Thorough() {
						full := wire.Frame(nil, typ, 0, 1, make([]byte, n), -1)
						c.readOne(id+"f", append(full, sentinelPing...), mx, vf.Hash("limitfull", mx, typ, over))
					}
					tick()
				}
			}
		}
	}

	// ---- (4) mutations of corpus frames and PRNG bytes ---------------------------------------
	var seeds [][]byte
	for _, dir := range []string{"FuzzFrameHeaderRead"} {
		files, _ := filepath.Glob("/repo/testdata/fuzz/" + dir + "/*")
		for _, f := range files {
			if b, err := os.ReadFile(f); err == nil {
				for _, ln := range strings.Split(string(b), "\n") {
					if strings.HasPrefix(ln, "[]byte(") {
						if s, err := unquoteGoBytes(ln); err == nil {
							seeds = append(seeds, s)
						}
					}
				}
			}
		}
	}
	r.Inc("fuzz_corpus_seeds", int64(len(seeds)))
	nm := r.Pick(120000, 6000000)
	for i := 0; i < nm; i++ {
		id := fmt.Sprintf("mut/%d", i)
		if !r.Want(i, id) {
			continue
		}
		rng := r.Rand(id)
		var in []byte
		kind := rng.Intn(6)
		switch kind {
		case 0: // random bytes
			in = make([]byte, rng.Intn(64))
			rng.Read(in)
		case 1: // random header, random short payload
			n := rng.Intn(40)
			p := make([]byte, n)
			rng.Read(p)
			ln := -1
			if rng.Intn(3) == 0 {
				ln = rng.Intn(1 << uint(rng.Intn(24)))
			}
			in = wire.Frame(nil, byte(rng.Intn(12)), byte(rng.Intn(256)), rng.Uint32(), p, ln)
		case 2, 3: // bit/byte mutation of a corpus frame
			in = append([]byte{}, corpus[rng.Intn(len(corpus))].bytesOf()...)
			for k := 1 + rng.Intn(3); k > 0; k-- {
				if rng.Intn(2) == 0 {
					in[rng.Intn(min(len(in), 12))] ^= 1 << uint(rng.Intn(8))
				} else {
					in[rng.Intn(len(in))] = byte(rng.Intn(256))
				}
			}
			in = append(in, sentinelPing...)
		case 4: // fuzz corpus seed, mutated
			if len(seeds) > 0 {
				in = append([]byte{}, seeds[rng.Intn(len(seeds))]...)
				if len(in) > 0 && rng.Intn(2) == 0 {
					in[rng.Intn(len(in))] ^= byte(1 << uint(rng.Intn(8)))
				}
			}
		case 5: // valid frame followed by garbage
			in = append([]byte{}, corpus[rng.Intn(len(corpus))].bytesOf()...)
			g := make([]byte, rng.Intn(30))
			rng.Read(g)
			in = append(in, g...)
		}
		mx := []uint32{16384, 16384, 16384, 1<<24 - 1, 20000}[rng.Intn(5)]
		var typ byte = 255
		if len(in) >= 9 {
			typ = in[3]
		}
		if r.WantSample() {
			r.Sample(map[string]any{"case": id, "family": kind, "max": mx, "input_hex": fmt.Sprintf("%x", in[:min(len(in), 48)])})
		}
		c.readOne(id, in, mx, vf.Hash("mut", kind, typ, len(in) < 9))
		tick()
	}

	// ---- (4b) the default limit after reads with other limits ---------------------------------------
	// ReadFrameFrom applies the default limit of 16384 octets whatever an earlier reader asked for: frame headers are
	// pooled, and a limit must not travel with one. A read with another limit (or none: 0), a release, then a plain read.
	nl := r.Pick(3000, 100000)
	for i := 0; i < nl; i++ {
		id := fmt.Sprintf("limit/%d", i)
		if !r.Want(i, id) {
			continue
		}
		rng := r.Rand(id)
		first := []uint32{0, 100, 20000, 1 << 20, 1<<24 - 1}[rng.Intn(5)]
		firstLen := []int{0, 50, 101, 16384, 20001, 70000}[rng.Intn(6)]
		secondLen := []int{16384, 16385, 20000, 70000, 300000}[rng.Intn(5)]
		typ := []byte{wire.TData, wire.THeaders, wire.TContinuation, 0x42}[rng.Intn(4)]
		replay := map[string]any{"first_limit": first, "first_length": firstLen, "second_length": secondLen, "type": typ}
		r.Guard("C16.frame-parse-panic", id, nil, replay, func() {
			in1 := append(wire.Frame(nil, wire.TData, 0, 1, make([]byte, firstLen), -1), sentinelPing...)
			if fr, err := http2.ReadFrameFromWithSize(bufio.NewReaderSize(bytes.NewReader(in1), 4096), first); err == nil {
				http2.ReleaseFrameHeader(fr)
			}
			in2 := append(wire.Frame(nil, typ, 0, 1, make([]byte, secondLen), -1), sentinelPing...)
			fr, err := http2.ReadFrameFrom(bufio.NewReaderSize(bytes.NewReader(in2), 4096))
			switch {
			case secondLen > 16384 && err == nil:
				r.Fail("C16.frame-over-limit-accepted", id, fmt.Sprintf("ReadFrameFrom (default limit 16384) accepted a frame of type %d announcing %d octets; the read before it on this goroutine used ReadFrameFromWithSize with limit %d", typ, secondLen, first), nil, replay)
			case secondLen <= 16384 && typ != 0x42 && err != nil:
				r.Fail("C16.frame-within-limit-rejected", id, fmt.Sprintf("ReadFrameFrom (default limit 16384) refused a frame of type %d with %d octets: %v; the read before it used ReadFrameFromWithSize with limit %d", typ, secondLen, err, first), nil, replay)
			}
			if err == nil && fr != nil {
				http2.ReleaseFrameHeader(fr)
			}
		})
		r.Eval(vf.Hash("limit", first, firstLen > int(first) && first != 0, secondLen > 16384, typ), true)
		tick()
	}

	// ---- (5) HPACK on arbitrary bytes ------------------------------------------------------------
	nh := r.Pick(60000, 3000000)
	for i := 0; i < nh; i++ {
		id := fmt.Sprintf("hpack/%d", i)
		if !r.Want(i, id) {
			continue
		}
		rng := r.Rand(id)
		var in []byte
		kind := rng.Intn(4)
		switch kind {
		case 0:
			in = make([]byte, 1+rng.Intn(40))
			rng.Read(in)
		case 1: // valid block, mutated
			enc := hpackref.NewEnc(4096)
			var pool []F
			for k := 1 + rng.Intn(4); k > 0; k-- {
				f := randField(rng, &pool)
				if len(f.Value) > 100 {
					f.Value = f.Value[:100]
				}
				in, _ = enc.Field(in, f, randChoice(rng))
			}
			in[rng.Intn(len(in))] ^= 1 << uint(rng.Intn(8))
		case 2: // huge declared lengths, incl. values with the top bit set (negative once converted to int)
			in = append(in, []byte{0x00, 0x40, 0x10}[rng.Intn(3)])
			if rng.Intn(2) == 0 {
				in = hpackref.AppendInt(in, 0, 7, 1) // a one-byte literal name first, so the value length is what overflows
				in = append(in, 'n')
			}
			v := []uint64{uint64(rng.Int63()), 1 << 63, 1<<63 + uint64(rng.Intn(1000)), 1<<64 - 1, rng.Uint64() | 1<<63, 1<<62 + uint64(rng.Intn(100)), 1<<32 + uint64(rng.Intn(100)), 1<<31 - 1, 1 << 31}[rng.Intn(9)]
			in = hpackref.AppendInt(in, byte(rng.Intn(2))<<7, 7, v)
			in = append(in, 'x')
		case 3: // long varints
			in = append(in, []byte{0xff, 0x7f, 0x3f, 0x1f, 0x0f}[rng.Intn(5)])
			for k := rng.Intn(14); k > 0; k-- {
				in = append(in, 0x80|byte(rng.Intn(128)))
			}
			in = append(in, byte(rng.Intn(128)))
		}
		replay := map[string]any{"hpack_input_hex": fmt.Sprintf("%x", in)}
		if c.inputLog != nil {
			c.inputLog.Truncate(0)
			c.inputLog.WriteAt([]byte(id+" hpack "+fmt.Sprintf("%x", in)+"\n"), 0)
		}
		r.Guard("C16.hpack-panic", id, nil, replay, func() {
			hp := http2.AcquireHPACK()
			defer http2.ReleaseHPACK(hp)
			hf := http2.AcquireHeaderField()
			defer http2.ReleaseHeaderField(hf)
			b := in
			for steps := 0; len(b) > 0; steps++ {
				hf.Reset()
				nb, err := hp.Next(hf, b)
				if err != nil {
					r.Inc("hpack_steps_error", 1)
					break
				}
				consumed := len(b) - len(nb)
				if consumed <= 0 {
					r.Fail("C16.hpack-no-progress", id, fmt.Sprintf("step %d on %x consumed %d bytes and returned no error", steps, b, consumed), nil, replay)
					break
				}
				out := len(hf.KeyBytes()) + len(hf.ValueBytes())
				if out > 2*consumed+2*(4096+64) {
					r.Fail("C16.hpack-output-unbounded", id, fmt.Sprintf("step %d consumed %d bytes and produced %d", steps, consumed, out), nil, replay)
					break
				}
				r.Inc("hpack_steps_ok", 1)
				b = nb
			}
		})
		for _, ev := range trk.Drain() {
			r.Fail("C16.pool-"+ev.What, id, fmt.Sprintf("%s %s\n  now:  %s\n  prev: %s", ev.What, ev.Kind, ev.Stack, ev.Prev), nil, replay)
		}
		r.Eval(vf.Hash("hpack", kind, len(in)/8), true)
		tick()
	}
	acq, rel, objs := trk.Counts()
	r.Inc("pool_acquire_events", acq)
	r.Inc("pool_release_events", rel)
	r.Max("max.pool_objects_tracked", int64(objs))
}

// unquoteGoBytes parses a `[]byte("...")` line of a Go fuzz corpus file.
func unquoteGoBytes(ln string) ([]byte, error) {
	ln = strings.TrimSpace(ln)
	ln = strings.TrimPrefix(ln, "[]byte(")
	ln = strings.TrimSuffix(ln, ")")
	s, err := strconvUnquote(ln)
	return []byte(s), err
}
