package workers

import (
	"bytes"
	"fmt"
	"testing"

	http2 "github.com/dgrr/http2"
	"golang.org/x/net/http2/hpack"

	"h2v/huffref"
	"h2v/vf"
)

// C15 — Huffman is the RFC 7541 code: lossless, canonical, strict on decode.
func TestC15(t *testing.T) {
	r := vf.Begin(t, "C15")
	defer r.End()
	r.Describe("encode: every string of length<=2 (exhaustive), all 256^2 symbol pairs behind 0..7-bit alignment prefixes, PRNG strings up to 64KiB; "+
		"decode: every byte string of length<=2 (quick) / <=3 (thorough) exhaustively, plus tail mutations of valid encodings (zero padding bits, >=8 padding bits, embedded EOS, truncation) and PRNG bytes. "+
		"A case is non-trivial when it is non-empty; distinct = distinct (kind,input) hashes, capped per shard.",
		"x/net/http2/hpack is a correct RFC 7541 Huffman codec (its encoder is the source of the reference code table)",
		"cases where x/net's decoder and the bit-level reference disagree are not judged")

	checkEnc := func(caseID string, s []byte) {
		want := hpack.AppendHuffmanString(nil, string(s))
		if !bytes.Equal(want, huffref.Encode(s)) {
			r.Inconclusive("reference encoders disagree")
			return
		}
		r.Guard("C15.encode-panic", caseID, nil, fmt.Sprintf("%x", s), func() {
			got := http2.HuffmanEncode(nil, s)
			if !bytes.Equal(got, want) {
				r.Fail("C15.encode-mismatch", caseID, fmt.Sprintf("input %x: got %x want %x", s, got, want), nil, fmt.Sprintf("%x", s))
				return
			}
			// non-empty scratch with capacity, as the HPACK coder uses it
			scratch := make([]byte, 0, 7)
			got = http2.HuffmanEncode(scratch, s)
			if !bytes.Equal(got, want) {
				r.Fail("C15.encode-mismatch", caseID, fmt.Sprintf("input %x (scratch dst): got %x want %x", s, got, want), nil, fmt.Sprintf("%x", s))
				return
			}
			back, err := http2.HuffmanDecode(nil, got)
			if err != nil || !bytes.Equal(back, s) {
				r.Fail("C15.roundtrip", caseID, fmt.Sprintf("input %x encoded %x decodes to %x err=%v", s, got, back, err), nil, fmt.Sprintf("%x", s))
			}
		})
		r.Eval(vf.Hash("enc", string(s)), len(s) > 0)
	}
	checkDec := func(caseID string, b []byte) {
		want, werr := huffref.Decode(b)
		xs, xerr := hpack.HuffmanDecodeToString(b)
		if (werr == nil) != (xerr == nil) || (werr == nil && xs != string(want)) {
			r.Inconclusive("reference decoders disagree")
			r.Inc("reference_disagreement", 1)
			return
		}
		r.Guard("C15.decode-panic", caseID, nil, fmt.Sprintf("%x", b), func() {
			got, err := http2.HuffmanDecode(nil, b)
			switch {
			case werr == nil && err != nil:
				r.Fail("C15.decode-rejects-valid", caseID, fmt.Sprintf("input %x is valid (%q) but rejected: %v", b, want, err), nil, fmt.Sprintf("%x", b))
			case werr != nil && err == nil:
				r.Fail("C15.decode-accepts-invalid", caseID, fmt.Sprintf("input %x is invalid (%v) but decoded to %q", b, werr, got), nil, fmt.Sprintf("%x", b))
			case werr == nil && !bytes.Equal(got, want):
				r.Fail("C15.decode-mismatch", caseID, fmt.Sprintf("input %x: got %q want %q", b, got, want), nil, fmt.Sprintf("%x", b))
			}
			if werr == nil {
				r.Inc("decode_accept", 1)
				// scratch dst with a prefix-free capacity
				got2, err2 := http2.HuffmanDecode(make([]byte, 0, 3), b)
				if err2 != nil || !bytes.Equal(got2, want) {
					r.Fail("C15.decode-mismatch", caseID, fmt.Sprintf("input %x (scratch dst): got %q err %v want %q", b, got2, err2, want), nil, fmt.Sprintf("%x", b))
				}
			} else {
				r.Inc("decode_reject", 1)
			}
		})
		r.Eval(vf.Hash("dec", string(b)), len(b) > 0)
	}

	// ---- encode: exhaustive length <= 2 --------------------------------------
	if r.Want(0, "enc/empty") {
		checkEnc("enc/empty", nil)
	}
	for a := 0; a < 256; a++ {
		id := fmt.Sprintf("enc/1/%02x", a)
		if r.Want(a, id) {
			checkEnc(id, []byte{byte(a)})
		}
		id2 := fmt.Sprintf("enc/2/%02x", a)
		if r.Want(a, id2) {
			for b := 0; b < 256; b++ {
				checkEnc(id2, []byte{byte(a), byte(b)})
			}
		}
	}
	r.Exhaustive("encode+roundtrip of all strings of length<=2 (65793)")

	// ---- symbol pairs at every bit alignment ----------------------------------
	// prefixes whose encoded length mod 8 is 0..7: '0' is 5 bits, 'e' is 5, ':' is 7 bits, 'A' is 6
	prefixes := [][]byte{}
	for k := 0; k < 8; k++ {
		// k copies of a 5-bit code: 5k mod 8 cycles through all residues
		p := bytes.Repeat([]byte{'0'}, k)
		prefixes = append(prefixes, p)
	}
	for a := 0; a < 256; a++ {
		id := fmt.Sprintf("encpair/%02x", a)
		if !r.Want(a, id) {
			continue
		}
		step := 1
		if !r.Thorough() {
			step = 3
		}
		for b := (a % step); b < 256; b += step {
			for _, p := range prefixes {
				s := append(append([]byte{}, p...), byte(a), byte(b))
				checkEnc(id, s)
			}
		}
	}

	// ---- random long strings ---------------------------------------------------
	nrand := r.Pick(600, 20000)
	for i := 0; i < nrand; i++ {
		id := fmt.Sprintf("encrand/%d", i)
		if !r.Want(i, id) {
			continue
		}
		rng := r.Rand(id)
		n := rng.Intn(200)
		if i%20 == 0 {
			n = rng.Intn(65536)
		}
		s := make([]byte, n)
		switch rng.Intn(3) {
		case 0:
			rng.Read(s)
		case 1:
			for j := range s {
				s[j] = byte(32 + rng.Intn(95))
			}
		default: // long-code symbols dominate
			for j := range s {
				s[j] = byte([]int{0, 1, 9, 10, 13, 22, 127, 128, 192, 200, 249, 255, 'a'}[rng.Intn(13)])
			}
		}
		checkEnc(id, s)
		if r.WantSample() {
			r.Sample(map[string]any{"kind": "encode-random", "len": n, "head_hex": fmt.Sprintf("%x", s[:min(n, 16)])})
		}
	}

	// ---- decode: exhaustive ------------------------------------------------------
	if r.Want(0, "dec/empty") {
		checkDec("dec/empty", nil)
	}
	for a := 0; a < 256; a++ {
		id := fmt.Sprintf("dec/%02x", a)
		if !r.Want(a, id) {
			continue
		}
		checkDec(id, []byte{byte(a)})
		for b := 0; b < 256; b++ {
			checkDec(id, []byte{byte(a), byte(b)})
			if r.Thorough() {
				for c := 0; c < 256; c++ {
					checkDec(id, []byte{byte(a), byte(b), byte(c)})
				}
			}
		}
	}
	if r.Thorough() {
		r.Exhaustive("decode of all byte strings of length<=3 (16843009)")
	} else {
		r.Exhaustive("decode of all byte strings of length<=2 (65793)")
	}

	// ---- decode: tail mutations of valid encodings + random bytes ----------------
	nmut := r.Pick(4000, 200000)
	for i := 0; i < nmut; i++ {
		id := fmt.Sprintf("decmut/%d", i)
		if !r.Want(i, id) {
			continue
		}
		rng := r.Rand(id)
		n := 1 + rng.Intn(40)
		s := make([]byte, n)
		rng.Read(s)
		if rng.Intn(2) == 0 {
			for j := range s {
				s[j] = byte(32 + rng.Intn(95))
			}
		}
		enc := huffref.Encode(s)
		kind := rng.Intn(7)
		switch kind {
		case 0: // clear a padding bit / last bit
			enc[len(enc)-1] &^= 1 << uint(rng.Intn(3))
		case 1: // append a full byte of ones (>= 8 bits of padding)
			enc = append(enc, 0xff)
		case 2: // embed EOS (30 ones) somewhere byte aligned is not required: append after the string
			enc = append(enc, 0xff, 0xff, 0xff, 0xff)
		case 3: // truncate
			enc = enc[:rng.Intn(len(enc)+1)]
		case 4: // flip a random bit
			enc[rng.Intn(len(enc))] ^= 1 << uint(rng.Intn(8))
		case 5: // random bytes
			enc = make([]byte, 1+rng.Intn(12))
			rng.Read(enc)
		case 6: // valid, unmodified
		}
		checkDec(id, enc)
		if r.WantSample() {
			r.Sample(map[string]any{"kind": "decode-mutation", "mutation": kind, "input_hex": fmt.Sprintf("%x", enc)})
		}
	}
}
