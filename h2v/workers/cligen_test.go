package workers

import (
	"errors"
	"bytes"
	"fmt"
	"io"
	"math/rand"
	"strings"

	"github.com/valyala/fasthttp"

	"h2v/hpackref"
	"h2v/rt"
	"h2v/wire"
)

// cliReq is what one caller hands to the client, and what the scripted server answers.
type cliReq struct {
	Tag      string
	Method   string
	Scheme   string
	Host     string
	Path     string
	Fields   [][2]string // caller-set regular fields (as the caller wrote them)
	ConnSpec [][2]string // connection-specific fields the caller also set (must not arrive)
	Body     []byte
	BodyMode int // 0 none, 1 buffered, 2 stream declared, 3 stream unknown length
	ReadChunk int
	RespSizeUpd []uint32 // dynamic table size updates at the start of the (final) response header block
	EOFWithLast bool // streamed bodies: the reader returns its last bytes together with io.EOF
	BodyErrAt int // > 0 (streamed bodies only): the body reader fails once BodyErrAt-1 bytes have been handed out
	// response script
	Status     int
	RespFields []F
	RespBody   []byte
	RespTrail  []F
	Choices    []hpackref.Choice
	SplitSeed  []int
	PadLen     int
	Chunks     []int
	Pads       []int
	TrailSplit []int
	Traits     []string
	Interim    int  // 0, or a 1xx status sent in a header block of its own before the response
	Prio       bool // the response HEADERS frame carries the PRIORITY flag and its 5 bytes
	HeadCL     int  // HEAD only: the content-length the response declares (a HEAD response has no body whatever it says)
}

type slowReader struct {
	b           []byte
	chunk       int
	errAt       int
	given       int
	eofWithLast bool // the last bytes come together with io.EOF (io.Reader allows both forms)
}

var errBodyReader = errors.New("scenario: the request body reader failed")

func (s *slowReader) Read(p []byte) (int, error) {
	if s.errAt > 0 && s.given >= s.errAt-1 {
		return 0, errBodyReader
	}
	if len(s.b) == 0 {
		return 0, io.EOF
	}
	n := len(p)
	if s.chunk > 0 && n > s.chunk {
		n = s.chunk
	}
	if s.errAt > 0 && s.given+n > s.errAt-1 {
		n = s.errAt - 1 - s.given
	}
	s.given += n
	n = copy(p[:n], s.b)
	s.b = s.b[n:]
	if s.eofWithLast && len(s.b) == 0 {
		return n, io.EOF
	}
	return n, nil
}

func genCliReq(rng *rand.Rand, conn string, n int, maxBody, maxResp int) *cliReq {
	q := &cliReq{Tag: fmt.Sprintf("%s.%d", conn, n), PadLen: -1}
	q.Method = []string{"GET", "POST", "PUT", "DELETE", "HEAD", "OPTIONS", "PATCH", "GET", "POST"}[rng.Intn(9)]
	q.Scheme = []string{"https", "http"}[rng.Intn(2)]
	q.Host = fmt.Sprintf("host-%d.example", rng.Intn(40))
	if rng.Intn(3) == 0 {
		q.Host += fmt.Sprintf(":%d", 1024+rng.Intn(60000))
	}
	q.Path = "/" + randToken(rng, 1+rng.Intn(16), "abcdefghijklmnopqrstuvwxyz0123456789_-") + "/" + q.Tag
	if rng.Intn(2) == 0 {
		q.Path += "?k=" + randToken(rng, 1+rng.Intn(10), "abcdefghijklmnopqrstuvwxyz0123456789") + "&t=" + q.Tag
	}
	q.Fields = append(q.Fields, [2]string{"x-vtag", q.Tag})
	for i := rng.Intn(8); i > 0; i-- {
		name := "x-" + randToken(rng, 1+rng.Intn(12), "abcdefghijklmnopqrstuvwxyz0123456789-_")
		if rng.Intn(4) == 0 {
			name = "X-Mixed-" + randToken(rng, 3, "ABCDEFabcdef")
		}
		if rng.Intn(5) == 0 && len(q.Fields) > 1 {
			name = q.Fields[1+rng.Intn(len(q.Fields)-1)][0]
		}
		q.Fields = append(q.Fields, [2]string{name, randValue(rng)})
	}
	if rng.Intn(4) == 0 {
		cs := [][2]string{{"Connection", "keep-alive"}, {"Keep-Alive", "timeout=5"}, {"Proxy-Connection", "keep-alive"}, {"Upgrade", "websocket"}}[rng.Intn(4)]
		q.ConnSpec = append(q.ConnSpec, cs)
	}
	// the fields the client stores in its compression table (pseudo-headers and user-agent), larger than the table itself:
	// an entry that does not fit empties the table (RFC 7541 4.4), on both sides
	switch rng.Intn(24) {
	case 0:
		q.Path += "&long=" + randToken(rng, 4000+rng.Intn(3000), "abcdefghijklmnopqrstuvwxyz0123456789")
		q.Traits = append(q.Traits, "path-larger-than-table")
	case 1:
		q.Fields = append(q.Fields, [2]string{"User-Agent", "h2v/" + randToken(rng, 4100+rng.Intn(2000), "abcdefghijklmnopqrstuvwxyz0123456789")})
		q.Traits = append(q.Traits, "user-agent-larger-than-table")
	}
	hasBody := q.Method == "POST" || q.Method == "PUT" || q.Method == "PATCH"
	if hasBody {
		bn := 0
		switch rng.Intn(8) {
		case 0:
			bn = 0
		case 1:
			bn = []int{1, 16383, 16384, 16385, 65535, 65536, 70000}[rng.Intn(7)]
		case 2:
			bn = rng.Intn(maxBody + 1)
		default:
			bn = 1 + rng.Intn(3000)
		}
		if bn > maxBody {
			bn = maxBody
		}
		q.Body = make([]byte, bn)
		rng.Read(q.Body)
		q.BodyMode = 1 + rng.Intn(3)
		if bn == 0 && q.BodyMode == 1 {
			q.BodyMode = 0
		}
		q.ReadChunk = []int{0, 1, 100, 5000, 16384, 40000}[rng.Intn(6)]
		if q.ReadChunk == 1 && bn > 3000 {
			q.ReadChunk = 113
		}
		if q.BodyMode >= 2 && rng.Intn(3) == 0 {
			q.EOFWithLast = true
			q.Traits = append(q.Traits, "eof-with-last-bytes")
		}
		q.Traits = append(q.Traits, fmt.Sprintf("body%d", q.BodyMode))
		if bn > 65535 {
			q.Traits = append(q.Traits, "bigup")
		}
	}
	// response
	if rng.Intn(6) == 0 {
		q.RespSizeUpd = [][]uint32{{4096}, {0, 4096}, {0}, {100}, {1000, 4096}, {0, 0, 4096}}[rng.Intn(6)]
		q.Traits = append(q.Traits, fmt.Sprintf("resp-table-size-updates%d", len(q.RespSizeUpd)))
	}
	q.Status = []int{200, 200, 201, 202, 206, 301, 400, 404, 418, 500, 503, 299, 204, 304}[rng.Intn(14)]
	q.RespFields = append(q.RespFields, F{Name: "x-rtag", Value: q.Tag})
	for i := rng.Intn(6); i > 0; i-- {
		name := "x-r-" + randToken(rng, 1+rng.Intn(10), "abcdefghijklmnopqrstuvwxyz0123456789-_")
		if rng.Intn(6) == 0 {
			name = []string{"cache-control", "etag", "vary", "location", "x-r-dup"}[rng.Intn(5)]
		}
		q.RespFields = append(q.RespFields, F{Name: name, Value: randValue(rng)})
	}
	rn := 0
	switch rng.Intn(8) {
	case 0:
		rn = 0
	case 1:
		rn = []int{1, 16383, 16384, 16385, 65535, 65536}[rng.Intn(6)]
	case 2:
		rn = rng.Intn(maxResp + 1)
	default:
		rn = 1 + rng.Intn(3000)
	}
	if rn > maxResp {
		rn = maxResp
	}
	if q.Method == "HEAD" || q.Status == 204 || q.Status == 304 {
		rn = 0
	}
	q.RespBody = make([]byte, rn)
	rng.Read(q.RespBody)
	q.HeadCL = -1
	if q.Method == "HEAD" && q.Status != 204 && rng.Intn(2) == 0 {
		// what a GET would have returned: legal on a HEAD response, and no body follows
		q.HeadCL = []int{1, 1234, 70000}[rng.Intn(3)]
		q.RespFields = append(q.RespFields, F{Name: "content-length", Value: fmt.Sprint(q.HeadCL)})
		q.Traits = append(q.Traits, "headcl")
	} else if rng.Intn(2) == 0 && q.Status != 204 {
		q.RespFields = append(q.RespFields, F{Name: "content-length", Value: fmt.Sprint(rn)})
	}
	if rng.Intn(8) == 0 {
		q.Interim = []int{100, 103, 103}[rng.Intn(3)]
		q.Traits = append(q.Traits, "interim")
	}
	if rng.Intn(8) == 0 {
		q.Prio = true
		q.Traits = append(q.Traits, "rprio")
	}
	if rng.Intn(5) == 0 {
		for i := 1 + rng.Intn(2); i > 0; i-- {
			q.RespTrail = append(q.RespTrail, F{Name: "x-rt-" + randToken(rng, 1+rng.Intn(6), "abcdefghijklmnopqrstuvwxyz"), Value: randValue(rng)})
		}
		q.Traits = append(q.Traits, "rtrailers")
	}
	for i := 0; i < 3+rng.Intn(3); i++ {
		c := randChoice(rng)
		if c.Rep == hpackref.RepNever && rng.Intn(2) == 0 {
			c.Rep = hpackref.RepIncremental
		}
		q.Choices = append(q.Choices, c)
	}
	for i := rng.Intn(4); i > 0; i-- {
		q.SplitSeed = append(q.SplitSeed, rng.Intn(1<<20))
	}
	if len(q.SplitSeed) > 0 {
		q.Traits = append(q.Traits, fmt.Sprintf("rsplit%d", len(q.SplitSeed)))
	}
	if rng.Intn(4) == 0 {
		q.PadLen = []int{0, 1, 17, 255}[rng.Intn(4)]
		q.Traits = append(q.Traits, "rhpad")
	}
	for i := 1 + rng.Intn(3); i > 0; i-- {
		q.Chunks = append(q.Chunks, []int{0, 1, 7, 100, 1000, 16384, 16384}[rng.Intn(7)])
	}
	if rn > 4000 {
		q.Chunks = []int{16384, 1000 + rng.Intn(15000)}
	}
	if rng.Intn(3) == 0 {
		for i := 1 + rng.Intn(2); i > 0; i-- {
			q.Pads = append(q.Pads, []int{-1, 0, 1, 100, 255}[rng.Intn(5)])
		}
		if rn > 4000 {
			q.Pads = []int{-1, 1}
		}
		q.Traits = append(q.Traits, "rdpad")
	}
	for i := rng.Intn(3); i > 0; i-- {
		q.TrailSplit = append(q.TrailSplit, rng.Intn(1<<20))
	}
	return q
}

// build fills a fasthttp request from the spec.
func (q *cliReq) build(req *fasthttp.Request) {
	req.SetRequestURI(q.Scheme + "://" + q.Host + q.Path)
	req.Header.SetMethod(q.Method)
	for _, f := range q.Fields {
		req.Header.Add(f[0], f[1])
	}
	for _, f := range q.ConnSpec {
		req.Header.Add(f[0], f[1])
	}
	switch q.BodyMode {
	case 1:
		req.SetBody(q.Body)
	case 2:
		req.SetBodyStream(&slowReader{b: q.Body, chunk: q.ReadChunk, errAt: q.BodyErrAt, eofWithLast: q.EOFWithLast}, len(q.Body))
	case 3:
		req.SetBodyStream(&slowReader{b: q.Body, chunk: q.ReadChunk, errAt: q.BodyErrAt, eofWithLast: q.EOFWithLast}, -1)
	}
}

// checkArrived compares what the scripted server received with what the caller built.
func (q *cliReq) checkArrived(s *rt.SeenRequest) string {
	if s.HPACKErr != "" {
		return "request header block does not decode: " + s.HPACKErr
	}
	want := map[string]string{":method": q.Method, ":scheme": q.Scheme, ":authority": q.Host, ":path": q.Path}
	for name, v := range want {
		got, n := s.Get(name)
		if n != 1 || got != v {
			return fmt.Sprintf("%s arrived %d times as %q, the caller's request has %q", name, n, got, v)
		}
	}
	regular := false
	for _, f := range s.Fields {
		if strings.HasPrefix(f.Name, ":") {
			if regular {
				return "pseudo-header " + f.Name + " after a regular field"
			}
			continue
		}
		regular = true
		if f.Name != strings.ToLower(f.Name) {
			return "field name " + f.Name + " is not lower-case"
		}
		switch f.Name {
		case "connection", "keep-alive", "proxy-connection", "transfer-encoding", "upgrade":
			return fmt.Sprintf("connection-specific field %q=%q reached the server", f.Name, f.Value)
		}
	}
	sent := map[string][]string{}
	for _, f := range q.Fields {
		n := strings.ToLower(f[0])
		sent[n] = append(sent[n], f[1])
	}
	got := map[string][]string{}
	for _, f := range s.Fields {
		if !strings.HasPrefix(f.Name, ":") {
			got[f.Name] = append(got[f.Name], f.Value)
		}
	}
	for name, vals := range sent {
		g := got[name]
		if len(g) != len(vals) {
			return fmt.Sprintf("field %q arrived %d times (%.80q), the caller set it %d times", name, len(g), g, len(vals))
		}
		for i := range vals {
			if g[i] != vals[i] {
				return fmt.Sprintf("field %q value #%d arrived as %.60q, the caller set %.60q", name, i, g[i], vals[i])
			}
		}
	}
	for name, g := range got {
		if _, ok := sent[name]; ok {
			continue
		}
		switch name {
		case "user-agent", "content-type", "host":
		case "content-length":
			if g[0] != fmt.Sprint(len(q.Body)) {
				return fmt.Sprintf("content-length %q, the body has %d bytes", g[0], len(q.Body))
			}
		default:
			return fmt.Sprintf("field %q=%.60q arrived that the caller never set", name, g)
		}
	}
	if !bytes.Equal(s.Body, q.Body) {
		return fmt.Sprintf("body of %d bytes arrived, the caller's has %d (first difference at %d)", len(s.Body), len(q.Body), firstDiff(s.Body, q.Body))
	}
	if s.EndStream != 1 {
		return fmt.Sprintf("END_STREAM arrived %d times", s.EndStream)
	}
	return ""
}

// checkDelivered compares what the caller got with what the server scripted for the stream the caller's tag arrived on.
func (q *cliReq) checkDelivered(c *rt.Call) string {
	done, err, n := c.Outcome()
	if !done {
		return "the caller never got an outcome"
	}
	if err != nil {
		return fmt.Sprintf("the caller got error %q for a response the server delivered completely", err)
	}
	if n != 1 {
		return fmt.Sprintf("the caller got %d outcomes: %v", n, c.Outcomes())
	}
	if c.Res.StatusCode() != q.Status {
		return fmt.Sprintf("status %d, the server sent %d", c.Res.StatusCode(), q.Status)
	}
	want := map[string][]string{}
	for _, f := range append(append([]F{}, q.RespFields...), q.RespTrail...) {
		want[f.Name] = append(want[f.Name], f.Value)
	}
	for name, vals := range want {
		if name == "content-length" && q.HeadCL >= 0 {
			continue // fasthttp reports a HEAD response's declared length in its own way; only the empty body matters
		}
		if name == "content-length" {
			if c.Res.Header.ContentLength() != len(q.RespBody) {
				return fmt.Sprintf("content-length %d, the server sent %s", c.Res.Header.ContentLength(), vals[0])
			}
			continue
		}
		var g []string
		for _, v := range c.Res.Header.PeekAll(name) {
			g = append(g, string(v))
		}
		if len(g) != len(vals) {
			return fmt.Sprintf("response field %q seen %d times (%.80q) by the caller, the server sent it %d times", name, len(g), g, len(vals))
		}
		for i := range vals {
			if g[i] != vals[i] {
				return fmt.Sprintf("response field %q value #%d is %.60q for the caller, the server sent %.60q", name, i, g[i], vals[i])
			}
		}
	}
	// nothing the server did not send in the response itself: in particular not the fields of an informational (1xx)
	// header block that preceded it (RFC 7231 6.2: an interim response is a message of its own). Only names of the
	// scripted vocabulary are judged, so that whatever fasthttp adds by itself (content-type, server, date) is left alone.
	for k, v := range c.Res.Header.All() {
		name := strings.ToLower(string(k))
		if strings.HasPrefix(name, "x-") && want[name] == nil {
			return fmt.Sprintf("the caller sees response field %q=%.60q, which the server did not send in the final response (interim status sent before it: %d)", name, v, q.Interim)
		}
	}
	if v := string(c.Res.Header.Peek("x-rtag")); v != q.Tag {
		return fmt.Sprintf("the caller of %s received the response tagged %q", q.Tag, v)
	}
	if !bytes.Equal(c.Res.Body(), q.RespBody) {
		return fmt.Sprintf("response body of %d bytes for the caller, the server sent %d (first difference at %d)", len(c.Res.Body()), len(q.RespBody), firstDiff(c.Res.Body(), q.RespBody))
	}
	return ""
}

// respUnits builds the response units of one stream; header blocks are encoded later, in wire order.
func (q *cliReq) respData(stream uint32) [][]byte {
	if len(q.RespBody) == 0 && len(q.RespTrail) == 0 {
		return nil
	}
	return rt.DataFrames(stream, q.RespBody, q.Chunks, q.Pads, len(q.RespTrail) == 0)
}

func (q *cliReq) respHeaderBytes(p *rt.Peer, stream uint32) []byte {
	var interim []byte
	if q.Interim != 0 {
		ib := p.EncodeBlock([]F{{Name: ":status", Value: fmt.Sprint(q.Interim)}, {Name: "x-interim", Value: q.Tag}}, q.Choices)
		interim = rt.Concat(rt.HeaderFrames(stream, ib, splitsFor(q.SplitSeed, len(ib)), -1, nil, false))
	}
	return append(interim, q.finalHeaderBytes(p, stream)...)
}

func (q *cliReq) finalHeaderBytes(p *rt.Peer, stream uint32) []byte {
	fs := append([]F{{Name: ":status", Value: fmt.Sprint(q.Status)}}, q.RespFields...)
	var upd []byte
	for _, n := range q.RespSizeUpd {
		upd = p.Enc.SizeUpdate(upd, n)
	}
	blk := append(upd, p.EncodeBlock(fs, q.Choices)...)
	es := len(q.RespBody) == 0 && len(q.RespTrail) == 0
	var prio *rt.Prio
	if q.Prio {
		prio = &rt.Prio{Dep: stream + 2, Weight: 77}
	}
	return rt.Concat(rt.HeaderFrames(stream, blk, splitsFor(q.SplitSeed, len(blk)), q.PadLen, prio, es))
}

func (q *cliReq) respTrailerBytes(p *rt.Peer, stream uint32) []byte {
	blk := p.EncodeBlock(q.RespTrail, q.Choices)
	return rt.Concat(rt.HeaderFrames(stream, blk, splitsFor(q.TrailSplit, len(blk)), -1, nil, true))
}

var _ = wire.TData
