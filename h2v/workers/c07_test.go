package workers

import (
	"sync"
	http2 "github.com/dgrr/http2"
	"os"
	"bytes"
	"fmt"
	"math/rand"
	"testing"
	"time"

	"github.com/valyala/fasthttp"

	"h2v/rt"
	"h2v/vf"
	"h2v/wire"
)

func TestC07(t *testing.T) {
	r := vf.Begin(t, "C07")
	defer r.End()
	defer perturbReport(r)
	r.Describe("PRNG schedules on one client connection in a synctest bubble: 1-8 concurrent uploads (sizes 0,1,16383,16384,65535,65536,300000,PRNG; buffered, streamed with declared and with unknown length, 1 B..40 KiB reads) under a server initial window from {0,1,100,16384,65535,100000,1 MiB}, "+
		"followed by up to 60 steps each sending 1-3 of: stream WINDOW_UPDATE, connection WINDOW_UPDATE, increments taking a window to exactly 2^31-1, SETTINGS_INITIAL_WINDOW_SIZE increase/decrease, SETTINGS_MAX_FRAME_SIZE change; quiescence after every step. "+
		"The scripted server's ledger is authoritative (decreases bind when the client's ACK is read). Safety on every DATA frame (stream window, connection window, MAX_FRAME_SIZE); progress at every quiescent point; after enough credit every body arrived byte-exact with END_STREAM exactly once, and every SETTINGS was acknowledged. "+
		"Non-trivial = a settings change in the schedule or at least 2 uploads.",
		"x/net Framer reads the client's frames correctly; quiescence means the client has reacted to everything sent so far")
	n := r.Pick(800, 25000)
	for i := 0; i < n; i++ {
		id := fmt.Sprintf("u%d", i)
		if !r.Want(i, id) {
			continue
		}
		r.Progress(id, "")
		switch vf.Hash("c07-family", id) % 8 {
		case 0:
			c07CancelRace(r, t, id, r.Rand(id))
			continue
		case 1:
			c07RoundTrip(r, t, id, r.Rand(id))
			continue
		}
		c07Scenario(r, t, id, r.Rand(id))
	}
}

// c07CancelRace: several uploads share a tight connection window; one of them is given stream credit and, a few virtual
// microseconds later, cancelled by its caller - while the write loop may be between taking the next chunk out of the
// windows and sending it. Whatever became of that chunk, the bytes the server has granted and not received are still
// there for the other uploads: at quiescence none of them may be stuck with both of its windows open (by the server's
// count), and once the connection window is opened wide every one of them arrives whole.
func c07CancelRace(r *vf.Run, t *testing.T, id string, rng *rand.Rand) {
	k := 3 + rng.Intn(3)
	w0 := int64([]int{0, 100, 1000}[rng.Intn(3)])
	sizes := make([]int, k)
	modes := make([]int, k)
	bodies := make([][]byte, k)
	for i := range sizes {
		sizes[i] = 30000 + rng.Intn(40000)
		modes[i] = 1 + rng.Intn(3)
		bodies[i] = make([]byte, sizes[i])
		rng.Read(bodies[i])
	}
	delay := time.Duration(rng.Intn(120000)) * time.Nanosecond
	replay := map[string]any{"family": "cancel-race", "uploads": k, "initial_window": w0, "sizes": sizes, "modes": modes, "cancel_after_ns": delay.Nanoseconds()}
	failed := false
	fail := func(rule, detail string) {
		if !failed {
			r.Fail("C07."+rule, id, detail, nil, replay)
		}
		failed = true
	}
	res := rt.RunBubble(t, id, 60*time.Second, func() {
		e := rt.NewClientEnv(id, rt.ClientOpts{PeerSettings: []wire.Setting{{ID: 4, Val: uint32(w0)}}})
		if e.HandshakeErr != nil {
			fail("handshake", e.HandshakeErr.Error())
			return
		}
		calls := make([]*rt.Call, k)
		for i := 0; i < k; i++ {
			i := i
			tag := fmt.Sprintf("%s.%d", id, i)
			calls[i] = e.Do(tag, func(req *fasthttp.Request) {
				req.SetRequestURI("https://up.example/" + tag)
				req.Header.SetMethod("POST")
				req.Header.Add("x-vtag", tag)
				switch modes[i] {
				case 1:
					req.SetBody(bodies[i])
				case 2:
					req.SetBodyStream(&slowReader{b: bodies[i], chunk: 16384}, len(bodies[i]))
				case 3:
					req.SetBodyStream(&slowReader{b: bodies[i], chunk: 16384}, -1)
				}
			})
			rt.Wait()
		}
		streamOf := map[int]uint32{}
		for _, s := range e.RequestsSeen() {
			tag, _ := s.Get("x-vtag")
			var idx int
			fmt.Sscanf(tag[len(id)+1:], "%d", &idx)
			streamOf[idx] = s.Stream
		}
		if len(streamOf) != k {
			fail("request-missing", fmt.Sprintf("%d uploads started, %d request streams arrived", k, len(streamOf)))
			e.Finish()
			return
		}
		// the server's own count of what it has granted and received
		connGranted, streamGranted := int64(65535), map[uint32]int64{}
		for i := 0; i < k; i++ {
			streamGranted[streamOf[i]] = w0
		}
		received := func() (conn int64, per map[uint32]int64, ended map[uint32]bool) {
			per, ended = map[uint32]int64{}, map[uint32]bool{}
			for _, f := range e.P.Frames() {
				if f.Type == wire.TData {
					conn += int64(f.Len)
					per[f.Stream] += int64(f.Len)
					ended[f.Stream] = ended[f.Stream] || f.EndStream
				}
			}
			return
		}
		grant := func(stream uint32, n int64) {
			if stream == 0 {
				connGranted += n
			} else {
				streamGranted[stream] += n
			}
			e.P.Write(rt.WindowUpdate(stream, uint32(n)))
		}
		victim := streamOf[0]
		grant(victim, 1<<20)
		how := rng.Intn(3)
		replay["victim_ended_by"] = []string{"its caller (Cancel)", "the server (complete early response)", "the server (RST_STREAM)"}[how]
		if os.Getenv("VERIF_DEBUG_POINTS") != "" {
			fmt.Printf("CANCELRACE %s how=%d delay=%v granted at %v\n", id, how, delay, time.Now().UnixNano()%1000000000)
		}
		go func() {
			time.Sleep(delay)
			switch how {
			case 0:
				e.C.Cancel(calls[0].Ctx)
			case 1:
				// RFC 7540 8.1: a server may answer before it has the whole request
				e.P.Write(rt.Concat(rt.HeaderFrames(victim, e.P.EncodeBlock([]F{{Name: ":status", Value: "413"}}, nil), nil, -1, nil, true)))
			case 2:
				e.P.Write(rt.RstStream(victim, uint32([]int{0, 8, 11}[rng.Intn(3)])))
			}
		}()
		rt.Wait()
		time.Sleep(time.Millisecond)
		rt.Wait()
		for i := 1; i < k; i++ {
			grant(streamOf[i], 1<<20)
		}
		rt.Wait()
		stuck := func(where string) {
			conn, per, _ := received()
			if os.Getenv("VERIF_DEBUG_POINTS") != "" {
				fmt.Printf("STUCKCHECK %s %s: conn received %d granted %d; per %v; sizes %v; streamGranted %v\n", id, where, conn, connGranted, per, sizes, streamGranted)
			}
			for i := 1; i < k; i++ {
				sid := streamOf[i]
				if owed := int64(sizes[i]) - per[sid]; owed > 0 && streamGranted[sid]-per[sid] > 0 && connGranted-conn > 0 {
					fail("stalled-with-open-windows", fmt.Sprintf("%s: upload on stream %d still owes %d bytes while its window is %d and the connection window is %d by the server's count, and the client is quiescent; upload on stream %d was ended %v after it had been given stream credit, having sent %d of %d bytes", where, sid, owed, streamGranted[sid]-per[sid], connGranted-conn, victim, delay, per[victim], sizes[0]))
					return
				}
			}
		}
		stuck("after the cancel, connection window as it was")
		if conn, per, _ := received(); conn > connGranted || per[victim] > streamGranted[victim] {
			fail("window-exceeded", fmt.Sprintf("the client sent %d bytes on the connection (granted %d), %d on the cancelled stream (granted %d)", conn, connGranted, per[victim], streamGranted[victim]))
		}
		grant(0, 1<<24)
		rt.Wait()
		stuck("after the connection window was opened wide")
		seen := map[uint32]*rt.SeenRequest{}
		for _, s := range e.RequestsSeen() {
			seen[s.Stream] = s
		}
		for i := 1; i < k && !failed; i++ {
			s := seen[streamOf[i]]
			if s == nil || s.EndStream != 1 || !bytes.Equal(s.Body, bodies[i]) {
				got, es := -1, 0
				if s != nil {
					got, es = len(s.Body), s.EndStream
				}
				fail("upload-incomplete", fmt.Sprintf("upload %d on stream %d: %d of %d bytes arrived, END_STREAM seen %d times, although both of its windows are open", i, streamOf[i], got, sizes[i], es))
			}
		}
		r.Inc("cancel_race_cases", 1)
		e.Finish()
	})
	c01Outcome(r, id, res, nil, replay, "C07")
	r.Eval(vf.Hash("cancel-race", k, w0, modes), true)
}

func c07Scenario(r *vf.Run, t *testing.T, id string, rng *rand.Rand) {
	k := 1 + rng.Intn(8)
	if rng.Intn(2) == 0 {
		k = 1 + rng.Intn(3)
	}
	w0 := []int64{0, 1, 100, 16384, 65535, 65535, 100000, 1 << 20}[rng.Intn(8)]
	sizes := make([]int, k)
	modes := make([]int, k)
	chunks := make([]int, k)
	bodies := make([][]byte, k)
	for i := range sizes {
		switch rng.Intn(8) {
		case 0:
			sizes[i] = 0
		case 1:
			sizes[i] = []int{1, 16383, 16384, 65535, 65536, 300000}[rng.Intn(6)]
		case 2:
			sizes[i] = rng.Intn(200000)
		default:
			sizes[i] = 1 + rng.Intn(70000)
		}
		modes[i] = 1 + rng.Intn(3)
		chunks[i] = []int{0, 1000, 16384, 20000, 40000}[rng.Intn(5)]
		bodies[i] = make([]byte, sizes[i])
		rng.Read(bodies[i])
	}
	nsteps := rng.Intn(r.Pick(40, 60))
	var actions []rt.Action
	var kinds string
	replay := map[string]any{"k": k, "w0": w0, "sizes": sizes, "modes": modes, "steps": nsteps}
	failed := false
	fail := func(rule, detail string) {
		if !failed {
			replay["actions"] = actions
			replay["sizes"], replay["modes"] = sizes, modes
			r.Fail("C07."+rule, id, detail, nil, replay)
		}
		failed = true
	}
	settingsChanged := false
	res := rt.RunBubble(t, id, 90*time.Second, func() {
		e := rt.NewClientEnv(id, rt.ClientOpts{PeerSettings: []wire.Setting{{ID: 4, Val: uint32(w0)}}})
		if e.HandshakeErr != nil {
			fail("handshake", e.HandshakeErr.Error())
			return
		}
		calls := make([]*rt.Call, k)
		start := func(i int) *rt.Call {
			tag := fmt.Sprintf("%s.%d", id, i)
			return e.Do(tag, func(req *fasthttp.Request) {
				req.SetRequestURI("https://up.example/" + tag)
				req.Header.SetMethod("POST")
				req.Header.Add("x-vtag", tag)
				switch modes[i] {
				case 1:
					req.SetBody(bodies[i])
				case 2:
					req.SetBodyStream(&slowReader{b: bodies[i], chunk: chunks[i]}, len(bodies[i]))
				case 3:
					req.SetBodyStream(&slowReader{b: bodies[i], chunk: chunks[i]}, -1)
				}
			})
		}
		for i := 0; i < k; i++ {
			calls[i] = start(i)
			rt.Wait() // stream ids follow the tag order
		}
		rt.Wait()
		streamOf := map[int]uint32{}
		discover := func() {
			for _, s := range e.RequestsSeen() {
				tag, _ := s.Get("x-vtag")
				var idx int
				fmt.Sscanf(tag[len(id)+1:], "%d", &idx)
				streamOf[idx] = s.Stream
			}
		}
		discover()
		if len(streamOf) != k {
			fail("request-missing", fmt.Sprintf("%d uploads started, %d request streams arrived", k, len(streamOf)))
			e.Finish()
			return
		}
		led := &rt.Ledger{InitWindow: w0}
		for i := 0; i < k; i++ {
			led.Opened = append(led.Opened, streamOf[i])
		}
		sentSoFar := map[uint32]int64{}
		win := map[uint32]int64{} // the script's own view of each stream window (to build exact-to-max increments)
		curInit := w0
		setSeq := 0
		check := func(where string) {
			fs := e.P.Frames()
			viol, st := led.Replay(fs, actions, 1)
			if viol != "" {
				fail("window-exceeded", where+": "+viol)
				return
			}
			for i := 0; i < k; i++ {
				sid := streamOf[i]
				owed := int64(sizes[i]) - st.Sent[sid]
				if owed > 0 && st.Streams[sid] > 0 && st.Conn > 0 {
					fail("stalled-with-open-windows", fmt.Sprintf("%s: upload on stream %d still owes %d bytes while its window is %d and the connection window is %d, and the client is quiescent (body mode %d)", where, sid, owed, st.Streams[sid], st.Conn, modes[i]))
					return
				}
				if owed < 0 {
					fail("more-data-than-body", fmt.Sprintf("%s: stream %d carried %d bytes more than the body", where, sid, -owed))
					return
				}
				// END_STREAM needs no window: once every byte of the body is out and the client is quiescent, the frame
				// that carries it must be out too, also when the last byte spent a window exactly
				if owed == 0 && st.Ended[sid] == 0 {
					fail("end-stream-withheld", fmt.Sprintf("%s: all %d body bytes of the upload on stream %d (body mode %d) have been sent and the client is quiescent, but END_STREAM has not been sent (stream window %d, connection window %d)", where, sizes[i], sid, modes[i], st.Streams[sid], st.Conn))
					return
				}
				if st.Ended[sid] > 1 {
					fail("end-stream-twice", fmt.Sprintf("%s: END_STREAM was sent %d times on stream %d", where, st.Ended[sid], sid))
					return
				}
			}
			for id2, w := range st.Streams {
				win[id2] = w
				sentSoFar[id2] = st.Sent[id2]
			}
			win[0] = st.Conn
		}
		check("after the requests were issued")
		lateLeft := rng.Intn(4)
		lateStarted := 0
		defer func() { r.Inc("uploads_started_while_server_frames_in_flight", int64(lateStarted)) }()
		for step := 0; step < nsteps && !failed; step++ {
			var burst []byte
			at := e.P.NFrames()
			for a := 1 + rng.Intn(3); a > 0; a-- {
				switch rng.Intn(9) {
				case 0, 1:
					sid := streamOf[rng.Intn(k)]
					inc := int64(1 + rng.Intn(40000))
					if win[sid]+inc > 1<<31-1 {
						continue // a conforming server never pushes a window above 2^31-1
					}
					burst = append(burst, rt.WindowUpdate(sid, uint32(inc))...)
					actions = append(actions, rt.Action{At: at, Kind: "wu", Stream: sid, Val: inc})
					win[sid] += inc
					kinds += "s"
				case 2, 3:
					inc := int64(1 + rng.Intn(70000))
					if win[0]+inc > 1<<31-1 {
						continue
					}
					burst = append(burst, rt.WindowUpdate(0, uint32(inc))...)
					actions = append(actions, rt.Action{At: at, Kind: "wu", Stream: 0, Val: inc})
					win[0] += inc
					kinds += "c"
				case 4: // exactly to 2^31-1
					sid := uint32(0)
					if rng.Intn(2) == 0 {
						sid = streamOf[rng.Intn(k)]
					}
					inc := int64(1<<31-1) - win[sid]
					if inc <= 0 || inc > 1<<31-1 || settingsChanged {
						continue
					}
					burst = append(burst, rt.WindowUpdate(sid, uint32(inc))...)
					actions = append(actions, rt.Action{At: at, Kind: "wu", Stream: sid, Val: inc})
					win[sid] += inc
					kinds += "M"
				case 5:
					// keep every stream window within 2^31-1 after the delta
					v := []int64{0, 1, 100, 16384, 65535, 70000, 1 << 20, curInit + 1, max(curInit-1, 0)}[rng.Intn(9)]
					ok := true
					for i := 0; i < k; i++ {
						if win[streamOf[i]]+(v-curInit) > 1<<31-1 {
							ok = false
						}
					}
					if !ok {
						continue
					}
					setSeq++
					burst = append(burst, rt.SettingsFrame(wire.Setting{ID: 4, Val: uint32(v)})...)
					actions = append(actions, rt.Action{At: at, Kind: "settings-window", Val: v, SetSeq: setSeq})
					for i := 0; i < k; i++ {
						win[streamOf[i]] += v - curInit
					}
					if v < curInit {
						kinds += "d"
					} else {
						kinds += "i"
					}
					curInit = v
					settingsChanged = true
				case 7: // grant exactly what one upload still owes, on its stream and on the connection: its last byte spends both windows
					i := rng.Intn(k)
					sid := streamOf[i]
					owedNow := int64(sizes[i]) - sentSoFar[sid]
					if owedNow <= 0 {
						continue
					}
					if d := owedNow - win[sid]; d > 0 && win[sid]+d <= 1<<31-1 {
						burst = append(burst, rt.WindowUpdate(sid, uint32(d))...)
						actions = append(actions, rt.Action{At: at, Kind: "wu", Stream: sid, Val: d})
						win[sid] += d
					}
					if d := owedNow - win[0]; d > 0 && win[0]+d <= 1<<31-1 {
						burst = append(burst, rt.WindowUpdate(0, uint32(d))...)
						actions = append(actions, rt.Action{At: at, Kind: "wu", Stream: 0, Val: d})
						win[0] += d
					}
					kinds += "x"
				case 6:
					v := []int64{16384, 16385, 65536, 1<<24 - 1}[rng.Intn(4)]
					setSeq++
					burst = append(burst, rt.SettingsFrame(wire.Setting{ID: 5, Val: uint32(v)})...)
					actions = append(actions, rt.Action{At: at, Kind: "settings-maxframe", Val: v, SetSeq: setSeq})
					kinds += "f"
				}
			}
			// A late upload starts while the burst is on its way: the request is being set up by the write
			// loop while the read loop applies the SETTINGS and WINDOW_UPDATEs of the burst. Its window is judged
			// as that of a stream open from the start (an upper bound of every window it may legitimately have
			// been opened with: increases count from when they were sent, decreases from their acknowledgement).
			late := lateLeft > 0 && rng.Intn(5) == 0
			lateFirst := rng.Intn(2) == 0
			if late {
				lateLeft--
				sz := []int{0, 1, 16384, 65535, 70000, 1 + rng.Intn(100000)}[rng.Intn(6)]
				sizes = append(sizes, sz)
				modes = append(modes, 1+rng.Intn(3))
				chunks = append(chunks, []int{0, 1000, 16384, 20000, 40000}[rng.Intn(5)])
				b := make([]byte, sz)
				rng.Read(b)
				bodies = append(bodies, b)
				if lateFirst {
					calls = append(calls, start(k))
				}
			}
			if len(burst) > 0 {
				e.P.Write(burst)
			}
			if late && !lateFirst {
				calls = append(calls, start(k))
			}
			rt.Wait()
			if late {
				discover()
				if _, ok := streamOf[k]; !ok {
					fail("request-missing", fmt.Sprintf("step %d: an upload started during the step never reached the server", step))
					break
				}
				led.Opened = append(led.Opened, streamOf[k])
				k++
				kinds += "L"
				lateStarted++
			}
			check(fmt.Sprintf("after step %d", step))
		}
		if !failed {
			at := e.P.NFrames()
			var burst []byte
			for i := 0; i < k; i++ {
				sid := streamOf[i]
				inc := int64(400000)
				if win[sid]+inc > 1<<31-1 {
					inc = 1<<31 - 1 - win[sid]
				}
				if inc > 0 {
					burst = append(burst, rt.WindowUpdate(sid, uint32(inc))...)
					actions = append(actions, rt.Action{At: at, Kind: "wu", Stream: sid, Val: inc})
				}
			}
			inc := int64(400000 * k)
			if win[0]+inc > 1<<31-1 {
				inc = 1<<31 - 1 - win[0]
			}
			if inc > 0 {
				burst = append(burst, rt.WindowUpdate(0, uint32(inc))...)
				actions = append(actions, rt.Action{At: at, Kind: "wu", Stream: 0, Val: inc})
			}
			e.P.Write(burst)
			rt.Wait()
			check("after the final grant")
		}
		if !failed {
			seen := map[uint32]*rt.SeenRequest{}
			for _, s := range e.RequestsSeen() {
				seen[s.Stream] = s
			}
			acks := 0
			for _, f := range e.P.Frames() {
				if f.Type == wire.TSettings && f.Ack {
					acks++
				}
				if f.Type == wire.TGoAway || f.Type == wire.TRstStream {
					fail("error-frame", "the client sent "+f.String()+" during a conforming flow-control schedule")
				}
			}
			if acks != 1+setSeq {
				fail("settings-acks", fmt.Sprintf("%d SETTINGS sent by the server, %d acknowledged", 1+setSeq, acks))
			}
			for i := 0; i < k; i++ {
				s := seen[streamOf[i]]
				if !bytes.Equal(s.Body, bodies[i]) || s.EndStream != 1 {
					fail("not-completed", fmt.Sprintf("upload on stream %d (mode %d): after enough credit %d of %d body bytes arrived (first difference at %d), END_STREAM seen %d times", streamOf[i], modes[i], len(s.Body), sizes[i], firstDiff(s.Body, bodies[i]), s.EndStream))
					break
				}
			}
			// answer everything so the callers finish
			var out []byte
			for i := 0; i < k; i++ {
				out = append(out, rt.Concat(rt.HeaderFrames(streamOf[i], e.P.EncodeBlock([]F{{Name: ":status", Value: "204"}}, nil), nil, -1, nil, true))...)
			}
			e.P.Write(out)
			rt.Wait()
			for i, c := range calls {
				if done, err, n := c.Outcome(); !done || err != nil || n != 1 {
					fail("caller-outcome", fmt.Sprintf("upload %d: done=%v err=%v outcomes=%d after a 204 answer", i, done, err, n))
				}
			}
		}
		r.Inc("actions", int64(len(actions)))
		e.Finish()
	})
	c01Outcome(r, id, res, nil, replay, "C07")
	if len(kinds) > 40 {
		kinds = kinds[:40]
	}
	shape := []any{k, w0, kinds}
	for i := range sizes {
		shape = append(shape, sizes[i]/16384, modes[i])
	}
	r.Eval(vf.Hash(shape...), settingsChanged || k >= 2)
	if r.WantSample() {
		r.Sample(map[string]any{"case": id, "uploads": k, "server_initial_window": w0, "sizes": sizes, "body_modes": modes, "action_kinds": kinds})
	}
}

// c07RoundTrip: the cancel race at RoundTrip level (HostClient + ConfigureClient over TLS), where a request that has been
// answered is handed back to its caller at once: 3-5 uploads share the server's initial connection window; the first is
// given stream credit and, a few virtual microseconds later, a complete early answer (or RST_STREAM, or its caller's
// timeout is short). The write loop may have taken that upload's next chunk out of the windows already. The server
// then opens the other streams: by its own count none of them may be stuck with both windows open, and with the
// connection window opened wide every one of them must arrive whole and be answered.
func c07RoundTrip(r *vf.Run, t *testing.T, id string, rng *rand.Rand) {
	k := 3 + rng.Intn(3)
	w0 := int64([]int{0, 100, 1000}[rng.Intn(3)])
	sizes := make([]int, k)
	modes := make([]int, k)
	bodies := make([][]byte, k)
	for i := range sizes {
		sizes[i] = 30000 + rng.Intn(40000)
		modes[i] = 1 + rng.Intn(3)
		bodies[i] = make([]byte, sizes[i])
		rng.Read(bodies[i])
	}
	delay := time.Duration(rng.Intn(120000)) * time.Nanosecond
	how := rng.Intn(2)
	replay := map[string]any{"family": "roundtrip-early-answer", "uploads": k, "initial_window": w0, "sizes": sizes, "modes": modes, "answer_after_ns": delay.Nanoseconds(), "victim_ended_by": []string{"a complete early response", "RST_STREAM"}[how]}
	failed := false
	fail := func(rule, detail string) {
		if !failed {
			r.Fail("C07."+rule, id, detail, nil, replay)
		}
		failed = true
	}
	http2.VerifSetPoolHook(func(kind string, obj any, acquire bool) bool {
		poisonHook(kind, obj, acquire)
		return kind == "clientctx" && !acquire // a pooled Ctx owns a timer of the bubble it was made in
	})
	defer http2.VerifSetPoolHook(poisonHook)
	res := rt.RunBubble(t, id, 90*time.Second, func() {
		env, err := rt.NewRTEnvWith(id, http2.ClientOpts{MaxResponseTime: 30 * time.Second}, []wire.Setting{{ID: 3, Val: 100}, {ID: 4, Val: uint32(w0)}}, func(e *rt.RTEnv) { e.NoConnGrant = true })
		if err != nil {
			fail("configure-client", err.Error())
			return
		}
		defer env.Close()
		type call struct {
			done bool
			err  error
			res  *fasthttp.Response
		}
		var mu sync.Mutex
		calls := make([]*call, k)
		for i := 0; i < k; i++ {
			i := i
			c := &call{res: &fasthttp.Response{}}
			calls[i] = c
			tag := fmt.Sprintf("%s.%d", id, i)
			go func() {
				req := &fasthttp.Request{}
				req.SetRequestURI("https://h2v.example/" + tag)
				req.Header.SetMethod("POST")
				req.Header.Add("x-vtag", tag)
				switch modes[i] {
				case 1:
					req.SetBody(bodies[i])
				case 2:
					req.SetBodyStream(&slowReader{b: bodies[i], chunk: 16384}, len(bodies[i]))
				case 3:
					req.SetBodyStream(&slowReader{b: bodies[i], chunk: 16384}, -1)
				}
				_, err := env.Client.RoundTrip(env.HC, req, c.res)
				mu.Lock()
				c.done, c.err = true, err
				mu.Unlock()
			}()
			rt.Wait()
		}
		conns := env.Conns()
		if len(conns) != 1 {
			fail("connections", fmt.Sprintf("%d connections dialled, expected 1", len(conns)))
			return
		}
		p := conns[0].P
		streamOf := map[int]uint32{}
		for _, s := range rt.SeenOn(p) {
			tag, _ := s.Get("x-vtag")
			var idx int
			fmt.Sscanf(tag[len(id)+1:], "%d", &idx)
			streamOf[idx] = s.Stream
		}
		if len(streamOf) != k {
			fail("request-missing", fmt.Sprintf("%d uploads started, %d request streams arrived", k, len(streamOf)))
			return
		}
		connGranted, streamGranted := int64(65535), map[uint32]int64{}
		for i := 0; i < k; i++ {
			streamGranted[streamOf[i]] = w0
		}
		received := func() (conn int64, per map[uint32]int64) {
			per = map[uint32]int64{}
			for _, f := range p.Frames() {
				if f.Type == wire.TData {
					conn += int64(f.Len)
					per[f.Stream] += int64(f.Len)
				}
			}
			return
		}
		grant := func(stream uint32, n int64) {
			if stream == 0 {
				connGranted += n
			} else {
				streamGranted[stream] += n
			}
			p.Write(rt.WindowUpdate(stream, uint32(n)))
		}
		victim := streamOf[0]
		grant(victim, 1<<20)
		go func() {
			time.Sleep(delay)
			if how == 0 {
				p.Write(rt.Concat(rt.HeaderFrames(victim, p.EncodeBlock([]F{{Name: ":status", Value: "413"}}, nil), nil, -1, nil, true)))
			} else {
				p.Write(rt.RstStream(victim, uint32([]int{0, 8, 11}[rng.Intn(3)])))
			}
		}()
		rt.Wait()
		time.Sleep(time.Millisecond)
		rt.Wait()
		for i := 1; i < k; i++ {
			grant(streamOf[i], 1<<20)
		}
		rt.Wait()
		stuck := func(where string) {
			conn, per := received()
			for i := 1; i < k; i++ {
				sid := streamOf[i]
				if owed := int64(sizes[i]) - per[sid]; owed > 0 && streamGranted[sid]-per[sid] > 0 && connGranted-conn > 0 {
					fail("stalled-with-open-windows", fmt.Sprintf("%s: upload on stream %d still owes %d bytes while its window is %d and the connection window is %d by the server's count, and the client is quiescent; the upload on stream %d was ended by the server %v after it had been given stream credit (it had sent %d of %d bytes), and RoundTrip handed the request back to its caller", where, sid, owed, streamGranted[sid]-per[sid], connGranted-conn, victim, delay, per[victim], sizes[0]))
					return
				}
			}
		}
		stuck("after the early answer, connection window as it was")
		if conn, per := received(); conn > connGranted || per[victim] > streamGranted[victim] {
			fail("window-exceeded", fmt.Sprintf("the client sent %d bytes on the connection (granted %d), %d on the answered stream (granted %d)", conn, connGranted, per[victim], streamGranted[victim]))
		}
		grant(0, 1<<24)
		rt.Wait()
		stuck("after the connection window was opened wide")
		for _, s := range rt.SeenOn(p) {
			if s.Stream == victim || s.EndStream == 0 {
				continue
			}
			p.Write(rt.Concat(rt.HeaderFrames(s.Stream, p.EncodeBlock([]F{{Name: ":status", Value: "200"}}, nil), nil, -1, nil, true)))
		}
		rt.Wait()
		mu.Lock()
		for i := 1; i < k && !failed; i++ {
			var got *rt.SeenRequest
			for _, s := range rt.SeenOn(p) {
				if s.Stream == streamOf[i] {
					got = s
				}
			}
			if got == nil || got.EndStream != 1 || !bytes.Equal(got.Body, bodies[i]) {
				n := -1
				if got != nil {
					n = len(got.Body)
				}
				fail("upload-incomplete", fmt.Sprintf("upload %d on stream %d: %d of %d bytes arrived although both of its windows are open", i, streamOf[i], n, sizes[i]))
			} else if !calls[i].done || calls[i].err != nil {
				fail("upload-not-acknowledged", fmt.Sprintf("upload %d on stream %d arrived whole and was answered 200, but RoundTrip says done=%v err=%v", i, streamOf[i], calls[i].done, calls[i].err))
			}
		}
		mu.Unlock()
		r.Inc("roundtrip_early_answer_cases", 1)
	})
	c01Outcome(r, id, res, nil, replay, "C07")
	r.Eval(vf.Hash("rt-early", k, w0, modes, how), true)
}
