package workers

import (
	"fmt"
	"os"
	"math/rand"
	"testing"
	"time"

	"github.com/valyala/fasthttp"

	"h2v/rt"
	"h2v/vf"
	"h2v/wire"
)

// recvLedger is the conforming sender's view of the receiver's windows.
type recvLedger struct {
	conn   int64
	init   int64
	stream map[uint32]int64 // credit returned per stream (on top of init), minus what was sent
	seen   int
	bad    string // first illegal WINDOW_UPDATE seen
}

func (l *recvLedger) absorb(fs []rt.Frame) {
	// fs holds only the frames received since the last call
	l.seen += len(fs)
	for _, f := range fs {
		if f.Type != wire.TWindowUpdate {
			continue
		}
		if f.Incr == 0 && l.bad == "" {
			l.bad = fmt.Sprintf("WINDOW_UPDATE with an increment of 0 on stream %d", f.Stream)
		}
		if f.Stream == 0 {
			l.conn += int64(f.Incr)
			if l.conn > 1<<31-1 && l.bad == "" {
				l.bad = fmt.Sprintf("connection window pushed to %d (> 2^31-1)", l.conn)
			}
		} else {
			l.stream[f.Stream] += int64(f.Incr)
			if l.init+l.stream[f.Stream] > 1<<31-1 && l.bad == "" {
				l.bad = fmt.Sprintf("window of stream %d pushed to %d (> 2^31-1)", f.Stream, l.init+l.stream[f.Stream])
			}
		}
	}
}

func (l *recvLedger) avail(s uint32) int64 { return min(l.conn, l.init+l.stream[s]) }
func (l *recvLedger) spend(s uint32, n int64) {
	l.conn -= n
	l.stream[s] -= n
}

func TestC14(t *testing.T) {
	r := vf.Begin(t, "C14")
	defer r.End()
	defer perturbReport(r)
	r.Describe("a conforming sender (the scripted peer sends only what its ledger of the receiver's windows allows, and waits at quiescence otherwise) against both roles in synctest bubbles. Server role: 1-6 concurrent uploads with PRNG chunk/padding patterns (padded empty frames included) and interleavings, mixed with uploads that end in a stream error "+
		"(body over the limit declared/undeclared, content-length mismatch, peer RST mid-body, refused stream) whose DATA is still in flight after the server's RST_STREAM, plus amplification runs (hundreds of offending streams carrying padded DATA against a 1 KiB body limit). Client role: 1-6 downloads with the same patterns, streams the caller cancelled while the server keeps sending, padded frames with empty data, amplified likewise. "+
		"Monitors: every WINDOW_UPDATE increment is 1..2^31-1 and no window exceeds 2^31-1; at every quiescent point a sender that still has a byte to send on a live stream has stream and connection window >= 1 (otherwise it is starved for ever); all well-formed transfers complete. Distinct = distinct (role, pattern, offence mix, amplification) vectors.",
		"quiescence (synctest.Wait) means the receiver has returned all the credit it is going to return for what it has received")
	n := r.Pick(260, 10000)
	for i := 0; i < n; i++ {
		id := fmt.Sprintf("w%d", i)
		if !r.Want(i, id) {
			continue
		}
		r.Progress(id, "")
		rng := r.Rand(id)
		t0 := time.Now()
		if i%2 == 0 {
			c14Server(r, t, id, rng)
		} else {
			c14Client(r, t, id, rng)
		}
		if d := time.Since(t0); d > 5*time.Second && os.Getenv("VERIF_DEBUG") != "" {
			fmt.Printf("SLOW %s %v\n", id, d)
		}
	}
}

type c14Xfer struct {
	stream  uint32
	tag     string
	body    []byte
	sent    int
	chunks  []int
	pads    []int
	fi      int
	kind    string // "" well-formed; otherwise the offence
	dead    bool   // the receiver reset it / the sender gave up
	endSent bool
	extra   int // frames the sender still pushes after the offence (in flight)
	declared bool // client role: the response declares its content-length
}

// nextFrame returns the next DATA frame of the transfer (nil when done) and its flow-controlled length.
func (x *c14Xfer) nextFrame() ([]byte, int64) { return x.nextFrameMax(1 << 30) }

// nextFrameMax builds the next frame so that its flow-controlled length does not exceed limit (a sender may always send less).
func (x *c14Xfer) nextFrameMax(limit int64) ([]byte, int64) {
	if x.endSent {
		return nil, 0
	}
	n := 16384
	if len(x.chunks) > 0 {
		n = x.chunks[x.fi%len(x.chunks)]
	}
	pad := -1
	if len(x.pads) > 0 {
		pad = x.pads[x.fi%len(x.pads)]
	}
	if pad >= 0 && n+1+pad > 16384 {
		n = 16384 - 1 - pad
	}
	rest := x.body[x.sent:]
	if n > len(rest) {
		n = len(rest)
	}
	if pad >= 0 && int64(1+pad) > limit {
		pad = -1
	}
	if over := int64(n) + int64(pad+1) - limit; over > 0 && int64(n) >= over {
		n -= int(over)
	}
	end := x.sent+n == len(x.body) && (n > 0 || len(rest) == 0)
	if n == 0 && len(rest) > 0 && x.fi > 3 && x.fi%4 != 0 {
		n = min(len(rest), 100) // a run of empty frames, then progress
		if int64(n)+int64(pad+1) > limit {
			pad = -1
			n = int(min(int64(n), limit))
		}
		end = x.sent+n == len(x.body)
	}
	var fl byte
	if end {
		fl |= wire.FEndStream
	}
	payload := rest[:n]
	if pad >= 0 {
		fl |= wire.FPadded
		payload = wire.Pad(payload, pad)
	}
	return wire.Frame(nil, wire.TData, fl, x.stream, payload, -1), int64(len(payload))
}

func (x *c14Xfer) commit(n int64, frame []byte) {
	// data bytes = payload minus padding overhead
	dl := int(n)
	if frame[4]&wire.FPadded != 0 {
		dl = int(n) - 1 - int(frame[9])
	}
	x.sent += dl
	x.fi++
	if frame[4]&wire.FEndStream != 0 {
		x.endSent = true
	}
}

func c14Server(r *vf.Run, t *testing.T, id string, rng *rand.Rand) {
	const bodyLimit = 1024
	amplify := rng.Intn(8) == 0
	k := 1 + rng.Intn(6)
	nOff := rng.Intn(4)
	endOnCrossing := false
	if amplify {
		nOff = 120 + rng.Intn(60)
		k = 2
		if rng.Intn(2) == 0 {
			// the frame that crosses the body limit also ends the stream, and nothing follows it: 16 KiB of
			// connection window per offender that only a receiver which credits discarded DATA hands back
			endOnCrossing = true
			nOff = 550 + rng.Intn(100)
		}
	}
	offKinds := []string{"too-large-undeclared", "too-large-declared", "cl-mismatch", "peer-rst", "refused"}
	replay := map[string]any{"role": "server", "uploads": k, "offending": nOff, "amplify": amplify, "offenders_end_on_the_crossing_frame": endOnCrossing}
	failed := false
	fail := func(rule, detail string) {
		if !failed {
			r.Fail("C14."+rule, id, detail, nil, replay)
		}
		failed = true
	}
	var kindsUsed []string
	paddedTrickle := 0
	defer func() { r.Inc("wellformed_uploads_that_are_mostly_padding", int64(paddedTrickle)) }()
	res := rt.RunBubble(t, id, 120*time.Second, func() {
		so := rt.ServerOpts{MaxRequestBodySize: bodyLimit * 64}
		e := rt.NewServerEnv(id, so)
		led := &recvLedger{conn: 65535, init: int64(e.ServerSettings[4]), stream: map[uint32]int64{}}
		if _, ok := e.ServerSettings[4]; !ok {
			led.init = 65535
		}
		e.P.Write(rt.WindowUpdate(0, 1<<30))
		var xs []*c14Xfer
		next := uint32(1)
		mk := func(kind string) *c14Xfer {
			x := &c14Xfer{stream: next, tag: fmt.Sprintf("%s.%d", id, next), kind: kind}
			next += 2
			size := 1 + rng.Intn(40000)
			if kind != "" {
				size = bodyLimit*64 + 20000 + rng.Intn(20000)
			}
			if amplify && kind != "" {
				size = bodyLimit*64 + 60000
			}
			x.body = make([]byte, size)
			for i := 1 + rng.Intn(3); i > 0; i-- {
				x.chunks = append(x.chunks, []int{0, 1, 100, 1000, 8000, 16384}[rng.Intn(6)])
			}
			if size > 30000 {
				x.chunks = []int{16384, 8000}
			}
			if rng.Intn(2) == 0 {
				for i := 1 + rng.Intn(2); i > 0; i-- {
					x.pads = append(x.pads, []int{-1, 0, 1, 100, 255}[rng.Intn(5)])
				}
			}
			if kind == "" && rng.Intn(4) == 0 {
				// a well-formed upload that is mostly padding: several windows' worth of pad octets go by, all of which
				// count against both windows and must come back
				x.body = x.body[:min(len(x.body), 12000+rng.Intn(20000))]
				x.chunks, x.pads = []int{20 + rng.Intn(40)}, []int{255}
				paddedTrickle++
			}
			if amplify && kind == "" {
				// amplified: one data octet and 256 octets of padding overhead per frame, ~5 MB of window use per upload
				x.body = make([]byte, 18000+rng.Intn(4000))
				x.chunks, x.pads = []int{1}, []int{255}
			}
			if amplify && kind != "" {
				x.chunks, x.pads = []int{1}, []int{255}
				x.body = x.body[:bodyLimit*64+400]
				// the offence comes first (one big frame), the padded trickle follows while the RST is on its way
			}
			return x
		}
		for i := 0; i < k; i++ {
			xs = append(xs, mk(""))
		}
		for i := 0; i < nOff; i++ {
			kd := offKinds[rng.Intn(len(offKinds)-1)] // "refused" needs a concurrency limit: left to C09
			kindsUsed = append(kindsUsed, kd)
			xs = append(xs, mk(kd))
		}
		if !amplify {
			rng.Shuffle(len(xs), func(i, j int) { xs[i], xs[j] = xs[j], xs[i] })
			for i, x := range xs { // stream ids must be increasing in the order streams are opened
				x.stream = uint32(2*i + 1)
				x.tag = fmt.Sprintf("%s.%d", id, x.stream)
			}
		}
		byStream := map[uint32]*c14Xfer{}
		for _, x := range xs {
			byStream[x.stream] = x
		}
		// open the streams in order (amplification: offenders one after the other, each finished before the next)
		open := func(x *c14Xfer) {
			fs := []F{{Name: ":method", Value: "POST"}, {Name: ":scheme", Value: "https"}, {Name: ":path", Value: "/" + x.tag}, {Name: ":authority", Value: "u.example"}, {Name: "x-vtag", Value: x.tag}}
			switch x.kind {
			case "too-large-declared":
				fs = append(fs, F{Name: "content-length", Value: fmt.Sprint(len(x.body))})
			case "cl-mismatch":
				fs = append(fs, F{Name: "content-length", Value: "5"})
			}
			e.P.Write(rt.Concat(rt.HeaderFrames(x.stream, e.P.EncodeBlock(fs, nil), nil, -1, nil, false)))
		}
		check := func(where string) bool {
			fsn := e.P.FramesFrom(led.seen)
			led.absorb(fsn)
			if led.bad != "" {
				fail("illegal-window-update", where+": "+led.bad)
				return false
			}
			for _, f := range fsn {
				if f.Type == wire.TRstStream {
					if x := byStream[f.Stream]; x != nil {
						x.dead = true
					}
				}
				if f.Type == wire.TGoAway {
					fail("connection-torn-down", where+": the server sent "+f.String()+" to a sender that stayed within its windows")
					return false
				}
			}
			return true
		}
		// pump: round-robin over live transfers, sending whatever fits
		pump := func(set []*c14Xfer, where string) {
			for round := 0; round < 200000 && !failed; round++ {
				progressed := false
				var burst []byte
				for _, x := range set {
					if x.dead || x.endSent {
						continue
					}
					for b := 0; b < 1+rng.Intn(4); b++ {
						fr, n := x.nextFrameMax(led.avail(x.stream))
						if fr == nil {
							break
						}
						if led.avail(x.stream) < n || (n == 0 && fr[4]&wire.FEndStream == 0 && led.avail(x.stream) < 1) {
							break
						}
						led.spend(x.stream, n)
						x.commit(n, fr)
						burst = append(burst, fr...)
						progressed = true
						if x.kind == "peer-rst" && x.sent > len(x.body)/3 {
							burst = append(burst, rt.RstStream(x.stream, 8)...)
							x.dead = true
							break
						}
					}
				}
				if len(burst) > 0 {
					e.P.Write(burst)
				}
				if !progressed {
					rt.Wait()
					if !check(where) {
						return
					}
					// at quiescence: anything still to send must have credit
					stuck := false
					pending := false
					for _, x := range set {
						if x.dead || x.endSent {
							continue
						}
						pending = true
						_, n := x.nextFrame()
						need := min(n, 1)
						if n == 0 {
							need = 0
						}
						if led.avail(x.stream) < max(need, 1) && n > 0 {
							stuck = true
							fail("sender-starved", fmt.Sprintf("%s: the sender still has %d bytes for live stream %d but its stream window is %d and the connection window is %d, and the receiver is quiescent (it will never send more credit)", where, len(x.body)-x.sent, x.stream, led.init+led.stream[x.stream], led.conn))
							break
						}
					}
					if !pending || stuck {
						return
					}
				} else if round%8 == 0 {
					rt.Wait()
					if !check(where) {
						return
					}
				}
			}
		}
		if amplify {
			good, bad := xs[:k], xs[k:]
			for _, x := range good {
				open(x)
			}
			// the well-formed uploads make some progress first
			for _, x := range bad {
				open(x)
				// one frame over the limit provokes the RST; the padded trickle is what is in flight behind it
				big := wire.Frame(nil, wire.TData, 0, x.stream, make([]byte, 16384), -1)
				var burst []byte
				nBig := (bodyLimit*64)/16384 + 1
				if endOnCrossing {
					// one frame at a time, as much as the windows allow, until the body limit is crossed; that frame ends the stream
					left := bodyLimit*64 + 1 + rng.Intn(16000)
					for left > 0 && !failed {
						n := min(left, 16384, int(led.avail(x.stream)))
						if n < 1 {
							e.P.Write(burst)
							burst = nil
							rt.Wait()
							if !check("amplification") {
								return
							}
							if led.avail(x.stream) < 1 {
								fail("sender-starved", fmt.Sprintf("amplification: offender number %d (stream %d) still has %d bytes to send but its stream window is %d and the connection window is %d, and the receiver is quiescent; every earlier offender ended with the DATA frame that crossed the body limit", (int(x.stream)-1)/2-k+1, x.stream, left, led.init+led.stream[x.stream], led.conn))
								return
							}
							continue
						}
						led.spend(x.stream, int64(n))
						left -= n
						var fl byte
						if left == 0 {
							fl = wire.FEndStream
						}
						burst = append(burst, wire.Frame(nil, wire.TData, fl, x.stream, make([]byte, n), -1)...)
					}
					nBig = 0
				}
				for i := 0; i < nBig; i++ {
					if led.avail(x.stream) >= 16384 {
						led.spend(x.stream, 16384)
						if endOnCrossing && i == nBig-1 {
							burst = append(burst, wire.Frame(nil, wire.TData, wire.FEndStream, x.stream, make([]byte, 16384), -1)...)
						} else {
							burst = append(burst, big...)
						}
					}
				}
				for i := 0; i < 150 && !endOnCrossing; i++ {
					fr := wire.Frame(nil, wire.TData, wire.FPadded, x.stream, wire.Pad([]byte{1}, 255), -1)
					if led.avail(x.stream) >= 257 {
						led.spend(x.stream, 257)
						burst = append(burst, fr...)
					}
				}
				e.P.Write(burst)
				x.dead = true
				rt.Wait()
				if !check("amplification") {
					return
				}
			}
			pump(good, "after the offending streams")
		} else {
			for _, x := range xs {
				open(x)
			}
			pump(xs, "mixed uploads")
		}
		if !failed {
			rt.Wait()
			check("end")
			recs, _, _, _ := e.H.Snapshot()
			got := map[string]int{}
			for _, rc := range recs {
				got[rc.Tag] = rc.BodyLen
			}
			for _, x := range xs {
				if x.kind == "" && !x.dead {
					if bl, ok := got[x.tag]; !ok || bl != len(x.body) {
						fail("upload-not-delivered", fmt.Sprintf("well-formed upload %s (stream %d, %d bytes) reached the handler as %d bytes (present=%v); sender state: sent=%d endSent=%v dead=%v chunks=%v pads=%v; frames on it:%s", x.tag, x.stream, len(x.body), bl, ok, x.sent, x.endSent, x.dead, x.chunks, x.pads, frameSummary(rt.FramesFor(e.P.Frames(), x.stream))))
					}
				}
			}
		}
		e.Finish()
	})
	c01Outcome(r, id, res, nil, replay, "C14")
	r.Eval(vf.Hash("server", k, kindsUsed, amplify, endOnCrossing), true)
	if r.WantSample() {
		r.Sample(replay)
	}
}

func c14Client(r *vf.Run, t *testing.T, id string, rng *rand.Rand) {
	amplify := rng.Intn(6) == 0
	k := 1 + rng.Intn(6)
	nCancel := rng.Intn(3)
	emptyPadded := rng.Intn(3) == 0
	if amplify {
		nCancel = 4 + rng.Intn(2)
		k = 1
		if rng.Intn(2) == 0 {
			nCancel, emptyPadded, k = 0, true, 2
		}
	}
	// churn: many short requests in a row, each cancelled by its caller while the whole (one frame, END_STREAM) answer
	// is still on its way; every such frame uses connection window, which a receiver must hand back
	churn := 0
	if !amplify && rng.Intn(5) == 0 {
		churn = 20 + rng.Intn(60)
	}
	// a graceful shutdown in the middle: the server says GOAWAY (covering everything in flight) and goes on answering; the
	// streams it still stands by need their credit like before, and there is more to come than the windows hold
	goAwayAt := -1
	if !amplify && churn == 0 && rng.Intn(3) == 0 {
		goAwayAt = rng.Intn(12)
		k = 2 + rng.Intn(3)
	}
	// long: one connection carries far more than its windows hold, in responses each larger than a stream window (1 MiB),
	// with and without a declared length: a receiver whose credit falls short by a little per round trip runs dry only
	// after many of them (20-26 MB here)
	long := !amplify && churn == 0 && goAwayAt < 0 && rng.Intn(12) == 0
	if long {
		k, nCancel, emptyPadded = 8+rng.Intn(3), 0, false
	}
	// blockedUpload: one more request is an upload whose body reader has nothing to give for the time being (a pipe, a
	// slow producer): the downloads on the other streams need their credit all the same
	blockedUpload := !amplify && churn == 0 && goAwayAt < 0 && !long && rng.Intn(10) == 0
	var triggers []string
	if blockedUpload {
		// input-only trigger of known finding F-C14-4
		triggers = []string{"client.requestBodyReaderBlocksWhileOtherStreamsDownload"}
		k = 1 + rng.Intn(2)
	}
	replay := map[string]any{"role": "client", "downloads": k, "cancelled": nCancel, "empty_padded_frames": emptyPadded, "amplify": amplify, "cancel_churn_rounds": churn, "goaway_at_round": goAwayAt, "long_history": long, "blocked_upload": blockedUpload}
	failed := false
	fail := func(rule, detail string) {
		if !failed {
			r.Fail("C14."+rule, id, detail, triggers, replay)
		}
		failed = true
	}
	res := rt.RunBubble(t, id, 120*time.Second, func() {
		e := rt.NewClientEnv(id, rt.ClientOpts{})
		if e.HandshakeErr != nil {
			fail("handshake", e.HandshakeErr.Error())
			return
		}
		led := &recvLedger{conn: 65535, init: 65535, stream: map[uint32]int64{}}
		if v, ok := e.ClientSettings[4]; ok {
			led.init = int64(v)
		}
		seenStreams := map[uint32]bool{}
		for round := 0; round < churn && !failed; round++ {
			tag := fmt.Sprintf("%s.churn%d", id, round)
			c := e.Do(tag, func(req *fasthttp.Request) {
				req.SetRequestURI("https://d.example/" + tag)
				req.Header.Add("x-vtag", tag)
			})
			rt.Wait()
			var sid uint32
			for _, s := range e.RequestsSeen() {
				if !seenStreams[s.Stream] {
					seenStreams[s.Stream] = true
					sid = s.Stream
				}
			}
			if sid == 0 {
				fail("request-missing", fmt.Sprintf("churn round %d: the request never arrived", round))
				break
			}
			e.P.Write(rt.Concat(rt.HeaderFrames(sid, e.P.EncodeBlock([]F{{Name: ":status", Value: "200"}, {Name: "x-rtag", Value: tag}}, nil), nil, -1, nil, false)))
			rt.Wait()
			e.C.Cancel(c.Ctx)
			rt.Wait()
			led.absorb(e.P.FramesFrom(led.seen))
			if led.bad != "" {
				fail("illegal-window-update", "cancel churn: "+led.bad)
				break
			}
			size := int64(1 + rng.Intn(16384))
			if rng.Intn(2) == 0 {
				size = 16384
			}
			if led.avail(sid) < size {
				if led.avail(sid) < 1 {
					fail("sender-starved", fmt.Sprintf("cancel churn round %d: the server cannot send a single byte on new stream %d: stream window %d, connection window %d, and the client is quiescent; every earlier round sent one DATA frame with END_STREAM on a stream its caller had just cancelled", round, sid, led.init+led.stream[sid], led.conn))
					break
				}
				size = led.avail(sid)
			}
			// the server has not seen the RST_STREAM yet: the complete answer, one DATA frame with END_STREAM
			led.spend(sid, size)
			e.P.Write(rt.Concat(rt.DataFrames(sid, make([]byte, size), nil, nil, true)))
			rt.Wait()
			led.absorb(e.P.FramesFrom(led.seen))
			r.Inc("answers_completed_on_streams_the_caller_had_cancelled", 1)
		}
		if failed {
			e.Finish()
			return
		}
		total := k + nCancel
		calls := make([]*rt.Call, total)
		for i := 0; i < total; i++ {
			tag := fmt.Sprintf("%s.%d", id, i)
			calls[i] = e.Do(tag, func(req *fasthttp.Request) {
				req.SetRequestURI("https://d.example/" + tag)
				req.Header.Add("x-vtag", tag)
			})
			rt.Wait()
		}
		var uploadGate chan struct{}
		if blockedUpload {
			uploadGate = make(chan struct{})
			gr := &gatedReader{gate: uploadGate, b: make([]byte, 2000)}
			utag := id + ".upload"
			e.Do(utag, func(req *fasthttp.Request) {
				req.SetRequestURI("https://d.example/" + utag)
				req.Header.SetMethod("POST")
				req.Header.Add("x-upload", "1")
				req.SetBodyStream(gr, -1)
			})
			rt.Wait()
			defer func() {
				defer func() { recover() }()
				close(uploadGate)
			}()
		}
		var xs []*c14Xfer
		for _, s := range e.RequestsSeen() {
			if seenStreams[s.Stream] {
				continue
			}
			if _, n := s.Get("x-upload"); n > 0 {
				continue // the upload whose body reader is blocked: not one of the downloads
			}
			tag, _ := s.Get("x-vtag")
			var idx int
			fmt.Sscanf(tag[len(id)+1:], "%d", &idx)
			x := &c14Xfer{stream: s.Stream, tag: tag}
			size := 1 + rng.Intn(200000)
			if amplify {
				size = 300000
			}
			if goAwayAt >= 0 {
				size = 400000 + rng.Intn(500000)
			}
			if long || blockedUpload {
				size = 2400000 + rng.Intn(400000)
			}
			x.declared = rng.Intn(2) == 0
			x.body = make([]byte, size)
			rng.Read(x.body)
			x.chunks = []int{16384, 1 + rng.Intn(16000)}
			if rng.Intn(2) == 0 {
				x.pads = []int{-1, rng.Intn(256)}
			}
			if emptyPadded {
				x.chunks = append(x.chunks, 0)
				x.pads = []int{255, -1, 100}
			}
			if amplify && emptyPadded {
				x.chunks, x.pads = []int{0, 0, 0, 0, 0, 0, 0, 0, 0, 0, 0, 0, 0, 0, 0, 200}, []int{255}
				x.body = x.body[:100000]
			}
			if idx >= k {
				x.kind = "cancelled"
			}
			xs = append(xs, x)
		}
		if len(xs) != total {
			fail("request-missing", fmt.Sprintf("%d requests issued, %d arrived", total, len(xs)))
			e.Finish()
			return
		}
		// response headers for everything
		var out []byte
		for _, x := range xs {
			hf := []F{{Name: ":status", Value: "200"}, {Name: "x-rtag", Value: x.tag}}
			if x.declared {
				hf = append(hf, F{Name: "content-length", Value: fmt.Sprint(len(x.body))})
			}
			out = append(out, rt.Concat(rt.HeaderFrames(x.stream, e.P.EncodeBlock(hf, nil), nil, -1, nil, false))...)
		}
		e.P.Write(out)
		rt.Wait()
		// the callers of the last nCancel requests give up; the server does not know yet and keeps sending
		for i := k; i < total; i++ {
			e.C.Cancel(calls[i].Ctx)
		}
		rt.Wait()
		resetSeen := map[uint32]bool{}
		goAwaySent := false
		check := func(where string) bool {
			fsn := e.P.FramesFrom(led.seen)
			led.absorb(fsn)
			if led.bad != "" {
				fail("illegal-window-update", where+": "+led.bad)
				return false
			}
			for _, f := range fsn {
				if f.Type == wire.TRstStream {
					resetSeen[f.Stream] = true
				}
				if f.Type == wire.TGoAway && !goAwaySent {
					fail("connection-torn-down", where+": the client sent "+f.String()+" to a server that stayed within its windows")
					return false
				}
			}
			return true
		}
		// the server has not processed the RST_STREAMs yet: it keeps sending on the cancelled streams for a while
		inflightBudget := map[uint32]int{}
		for _, x := range xs {
			if x.kind == "cancelled" {
				inflightBudget[x.stream] = 100000
				if amplify {
					inflightBudget[x.stream] = 290000
				}
			}
		}
		for round := 0; round < 400000 && !failed; round++ {
			progressed := false
			var burst []byte
			if round == goAwayAt {
				var top uint32
				for _, x := range xs {
					top = max(top, x.stream)
				}
				e.P.Write(rt.GoAway([]uint32{top, 1<<31 - 1}[rng.Intn(2)], 0, "shutting down, finishing what is in flight"))
				goAwaySent = true
				r.Inc("graceful_goaway_during_downloads", 1)
			}
			for _, x := range xs {
				if x.dead || x.endSent {
					continue
				}
				if x.kind == "cancelled" && inflightBudget[x.stream] <= 0 {
					x.dead = true // now the server has seen the RST_STREAM
					continue
				}
				for b := 0; b < 1+rng.Intn(4); b++ {
					fr, n := x.nextFrameMax(led.avail(x.stream))
					if fr == nil || led.avail(x.stream) < n || (n == 0 && fr[4]&wire.FEndStream == 0 && led.avail(x.stream) < 1) {
						break // nothing fits (an empty frame that ends nothing is no progress when the window is shut)
					}
					led.spend(x.stream, n)
					x.commit(n, fr)
					burst = append(burst, fr...)
					progressed = true
					if x.kind == "cancelled" {
						inflightBudget[x.stream] -= int(n)
					}
				}
			}
			if len(burst) > 0 {
				e.P.Write(burst)
			}
			if !progressed {
				rt.Wait()
				if !check("downloads") {
					break
				}
				pending := false
				for _, x := range xs {
					if x.dead || x.endSent {
						continue
					}
					pending = true
					if _, n := x.nextFrame(); n > 0 && led.avail(x.stream) < 1 {
						fail("sender-starved", fmt.Sprintf("the server still has %d bytes for live stream %d (%s) but the client's stream window is %d and its connection window is %d, and the client is quiescent", len(x.body)-x.sent, x.stream, map[string]string{"": "a request a caller is waiting on", "cancelled": "cancelled by its caller, RST_STREAM not yet seen by the server"}[x.kind], led.init+led.stream[x.stream], led.conn))
						break
					}
				}
				if !pending {
					break
				}
			} else if round%8 == 0 {
				rt.Wait()
				if !check("downloads") {
					break
				}
			}
		}
		if !failed {
			rt.Wait()
			check("end")
			for i := 0; i < k; i++ {
				done, err, _ := calls[i].Outcome()
				var want []byte
				for _, x := range xs {
					if x.tag == calls[i].Tag {
						want = x.body
					}
				}
				if !done || err != nil || len(calls[i].Res.Body()) != len(want) {
					fail("download-not-delivered", fmt.Sprintf("download %s: done=%v err=%v body=%d want=%d", calls[i].Tag, done, err, len(calls[i].Res.Body()), len(want)))
				}
			}
		}
		e.Finish()
	})
	c01Outcome(r, id, res, triggers, replay, "C14")
	r.Eval(vf.Hash("client", k, nCancel, emptyPadded, amplify, churn > 0, blockedUpload), true)
	if r.WantSample() {
		r.Sample(replay)
	}
}
