package workers

import (
	"fmt"
	"math/rand"
	"sync"
	"testing"
	"time"

	http2 "github.com/dgrr/http2"

	"h2v/hpackref"
	"h2v/rt"
	"h2v/vf"
	"h2v/wire"
)

type gaugeMax struct {
	mu sync.Mutex
	g  http2.VerifGauges
	n  int64
}

func (m *gaugeMax) observe(g http2.VerifGauges) {
	m.mu.Lock()
	m.n++
	mx := func(a *int, b int) {
		if b > *a {
			*a = b
		}
	}
	mx(&m.g.Streams, g.Streams)
	mx(&m.g.OpenStreams, g.OpenStreams)
	mx(&m.g.ClosedRing, g.ClosedRing)
	mx(&m.g.SelfReset, g.SelfReset)
	mx(&m.g.HeaderBytes, g.HeaderBytes)
	mx(&m.g.BodyBytes, g.BodyBytes)
	mx(&m.g.WriterQueue, g.WriterQueue)
	mx(&m.g.ReaderQueue, g.ReaderQueue)
	m.mu.Unlock()
}

func (m *gaugeMax) take() (http2.VerifGauges, int64) {
	m.mu.Lock()
	defer m.mu.Unlock()
	g, n := m.g, m.n
	m.g, m.n = http2.VerifGauges{}, 0
	return g, n
}

func TestC13(t *testing.T) {
	r := vf.Begin(t, "C13")
	defer r.End()
	defer perturbReport(r)
	r.Describe("adversarial frame schedules against small limits (MaxConcurrentStreams 1-8, MaxRequestBodySize 1-64 KiB, MaxHeaderListSize 1-16 KiB) with slow or parked handlers, each run with N and 4N frames (synctest bubble): rapid HEADERS+RST_STREAM, streams left half-open, PRIORITY on ever-new idle ids, "+
		"endless CONTINUATION (small fields, zero-length frames, one never-ending literal whose declared length is 2^40), bodies over the limit declared and undeclared, content-length lies, PING/SETTINGS floods with and without a reading peer, and combinations. "+
		"Monitors: handlers running concurrently <= MaxConcurrentStreams at every handler entry; body and header list seen by a handler within the limits; gauges sampled by the stream loop at every iteration (hook H2: stream table, closed ring, self-reset set, buffered header bytes, buffered body bytes, queue lengths) within the documented constants, "+
		"and not growing from the N run to the 4N run. Distinct = distinct (attack, limits, N) vectors.",
		"documented constants: stream table <= MaxConcurrentStreams+1, closed ring <= 256, self-reset set <= 1025, queues <= 128, buffered header bytes <= 4 x MaxHeaderListSize + 2 frames, buffered body <= (MaxRequestBodySize + 1 frame) x MaxConcurrentStreams")
	var gm gaugeMax
	http2.VerifSetGaugeHook(gm.observe)
	defer http2.VerifSetGaugeHook(nil)
	attacks := []string{"rapid-reset", "half-open", "priority-idle", "continuation-small-fields", "continuation-empty", "continuation-endless-literal", "body-over-limit-undeclared", "body-over-limit-declared", "content-length-lie", "ping-flood", "settings-flood", "ping-flood-no-read", "mixed", "self-reset-slots", "body-limit-boundary", "continuation-endless-literal-refused", "request-timeout-slots", "content-length-zero", "trailers-over-header-limit", "pseudo-header-over-limit", "blocked-streamed-responses"}
	n := r.Pick(160, 3000)
	for i := 0; i < n; i++ {
		id := fmt.Sprintf("a%d", i)
		if !r.Want(i, id) {
			continue
		}
		rng := r.Rand(id)
		attack := attacks[i%len(attacks)]
		mixedKind := []string{"rapid-reset", "half-open", "priority-idle", "body-over-limit-undeclared", "ping-flood"}[rng.Intn(5)]
		m := 1 + rng.Intn(8)
		bodyLimit := []int{1 << 10, 4 << 10, 16 << 10, 64 << 10}[rng.Intn(4)]
		hdrLimit := []int{1 << 10, 4 << 10, 16 << 10}[rng.Intn(3)]
		N := r.Pick(150, 400) + rng.Intn(100)
		r.Progress(id, attack)
		replay := map[string]any{"attack": attack, "max_concurrent_streams": m, "max_request_body": bodyLimit, "max_header_list": hdrLimit, "N": N}
		var prev http2.VerifGauges
		failed := false
		for pass, frames := range []int{N, 4 * N} {
			g, samples, maxRun, viol := c13Attack(r, t, fmt.Sprintf("%s.%d", id, pass), rng, &gm, attack, mixedKind, m, bodyLimit, hdrLimit, frames)
			r.Inc("gauge_samples", samples)
			replay[fmt.Sprintf("gauges_pass%d", pass)] = g
			fail := func(rule, detail string) {
				if !failed {
					r.Fail("C13."+rule, id, detail, nil, replay)
				}
				failed = true
			}
			if viol != "" {
				fail("handler-limit", viol)
			}
			if maxRun > m {
				fail("handlers-above-max-concurrent-streams", fmt.Sprintf("attack %s with %d frames: %d handlers ran concurrently, MaxConcurrentStreams is %d", attack, frames, maxRun, m))
			}
			check := func(name string, got, bound int) {
				if got > bound {
					fail("state-above-bound", fmt.Sprintf("attack %s with %d frames: %s reached %d, documented bound %d", attack, frames, name, got, bound))
				}
			}
			check("stream table", g.Streams, m+1)
			check("closed-stream ring", g.ClosedRing, 256)
			check("self-reset set", g.SelfReset, 1025)
			check("write queue", g.WriterQueue, 128)
			check("read queue", g.ReaderQueue, 128)
			check("buffered header bytes", g.HeaderBytes, 4*hdrLimit+2*16384)
			check("buffered body bytes", g.BodyBytes, (bodyLimit+16384)*m)
			if pass == 1 {
				grow := func(name string, a, b, slack int) {
					if b > a+slack && b > 2*a {
						fail("state-grows-with-frames", fmt.Sprintf("attack %s: %s was at most %d with %d frames and %d with %d frames", attack, name, a, N, b, 4*N))
					}
				}
				grow("stream table", prev.Streams, g.Streams, 1)
				grow("buffered header bytes", prev.HeaderBytes, g.HeaderBytes, 2*16384)
				grow("buffered body bytes", prev.BodyBytes, g.BodyBytes, 16384*m)
			}
			prev = g
			r.Max("max.stream_table", int64(g.Streams))
			r.Max("max.closed_ring", int64(g.ClosedRing))
			r.Max("max.header_bytes", int64(g.HeaderBytes))
			r.Max("max.body_bytes", int64(g.BodyBytes))
			r.Max("max.handlers_running", int64(maxRun))
		}
		r.Mark("attacks", attack)
		r.Eval(vf.Hash(attack, m, bodyLimit, hdrLimit, N/50), true)
		if r.WantSample() {
			r.Sample(replay)
		}
	}
}

func c13Attack(r *vf.Run, t *testing.T, id string, rng *rand.Rand, gm *gaugeMax, attack, mixedKind string, m, bodyLimit, hdrLimit, frames int) (http2.VerifGauges, int64, int, string) {
	var g http2.VerifGauges
	var samples int64
	maxRun := 0
	viol := ""
	seed := rng.Int63()
	res := rt.RunBubble(t, id, 120*time.Second, func() {
		lr := rand.New(rand.NewSource(seed))
		gm.take()
		so := rt.ServerOpts{MaxConcurrentStreams: m, MaxRequestBodySize: bodyLimit, MaxHeaderListSize: hdrLimit, BufToPeer: 1 << 20}
		if attack == "request-timeout-slots" {
			so.ReadTimeout = 2 * time.Second
		}
		e := rt.NewServerEnv(id, so)
		gate := e.H.NewGate()
		e.H.SetDefault(&rt.RespPlan{Status: 200, Body: []byte("ok"), Gate: gate})
		next := uint32(1)
		hdr := func(sid uint32, es bool) []byte {
			return rt.Concat(rt.HeaderFrames(sid, reqBlock(e.P, sid, fmt.Sprintf("%s.%d", id, sid)), nil, -1, nil, es))
		}
		send := func(b []byte) bool {
			if e.P.Write(b) != nil {
				return false
			}
			return true
		}
		kind := attack
		if attack == "mixed" {
			kind = mixedKind
		}
		switch kind {
		case "rapid-reset":
			for i := 0; i < frames/2; i++ {
				if !send(append(hdr(next, true), rt.RstStream(next, 8)...)) {
					break
				}
				next += 2
				if i%50 == 0 {
					rt.Wait()
				}
			}
		case "half-open":
			for i := 0; i < frames; i++ {
				if !send(hdr(next, false)) {
					break
				}
				next += 2
				if i%50 == 0 {
					rt.Wait()
				}
			}
		case "priority-idle":
			for i := 0; i < frames; i++ {
				if !send(rt.Priority(next, 0, false, 1)) {
					break
				}
				next += 2
				if i%100 == 0 {
					rt.Wait()
				}
			}
		case "continuation-small-fields", "continuation-empty", "continuation-endless-literal":
			blk := reqBlock(e.P, next, id)
			first := blk
			if kind == "continuation-endless-literal" {
				// literal without indexing, name length announced as 2^40: never satisfied
				first = append(append([]byte{}, blk...), 0x00)
				first = hpackref.AppendInt(first, 0, 7, 1<<40)
			}
			send(wire.Frame(nil, wire.THeaders, 0, next, first, -1))
			for i := 0; i < frames; i++ {
				var frag []byte
				switch kind {
				case "continuation-small-fields":
					frag = e.P.EncodeBlock([]F{{Name: fmt.Sprintf("x-c-%d", i), Value: "v"}}, nil)
				case "continuation-endless-literal":
					frag = make([]byte, 4096)
				}
				if !send(wire.Frame(nil, wire.TContinuation, 0, next, frag, -1)) {
					break
				}
				if i%50 == 0 {
					rt.Wait()
				}
			}
		case "body-over-limit-undeclared", "body-over-limit-declared", "content-length-lie", "content-length-zero":
			per := frames / m
			for s := 0; s < m; s++ {
				fs := []F{{Name: ":method", Value: "POST"}, {Name: ":scheme", Value: "https"}, {Name: ":path", Value: "/up"}, {Name: ":authority", Value: "u.example"}, {Name: "x-vtag", Value: fmt.Sprintf("%s.%d", id, next)}}
				switch kind {
				case "body-over-limit-declared":
					fs = append(fs, F{Name: "content-length", Value: fmt.Sprint(bodyLimit * 4)})
				case "content-length-lie":
					fs = append(fs, F{Name: "content-length", Value: "10"})
				case "content-length-zero":
					// "no body" declared, and a body that never ends follows: 0 is a length like any other
					fs = append(fs, F{Name: "content-length", Value: "0"})
				}
				send(rt.Concat(rt.HeaderFrames(next, e.P.EncodeBlock(fs, nil), nil, -1, nil, false)))
				for i := 0; i < per; i++ {
					if !send(wire.Frame(nil, wire.TData, 0, next, make([]byte, 1024+lr.Intn(8192)), -1)) {
						break
					}
					if i%20 == 0 {
						rt.Wait()
					}
				}
				next += 2
			}
		case "request-timeout-slots":
			// rounds of: as many complete requests as the peer can get in (handlers parked), then the server's own
			// request timeout passes and it resets the streams; their handlers still run and still hold their slots,
			// so the next round must be refused; half-open streams time out along the way
			for round := 0; round < 3+frames/100; round++ {
				var b []byte
				for i := 0; i < m+2; i++ {
					b = append(b, hdr(next, true)...)
					next += 2
				}
				for i := 0; i < 3; i++ {
					b = append(b, hdr(next, false)...)
					next += 2
				}
				if !send(b) {
					break
				}
				rt.Wait()
				time.Sleep(2*time.Second + time.Duration(lr.Intn(1500))*time.Millisecond)
				rt.Wait()
			}
		case "self-reset-slots":
			// complete requests whose handlers are parked; the peer then makes the server reset each stream itself
			// (a WINDOW_UPDATE that overflows the stream's send window): the handler still runs and still holds its slot
			for i := 0; i < frames/2; i++ {
				b := hdr(next, true)
				switch lr.Intn(3) {
				case 0:
					b = append(b, rt.WindowUpdate(next, 1<<31-1)...)
				case 1:
					b = append(b, append(rt.WindowUpdate(next, 1<<30), rt.WindowUpdate(next, 1<<30)...)...)
				case 2: // a second HEADERS without END_STREAM on a half-closed (remote) stream: STREAM_CLOSED from the server
					b = append(b, wire.Frame(nil, wire.TData, 0, next, []byte("late"), -1)...)
				}
				if !send(b) {
					break
				}
				next += 2
				if i%10 == 0 {
					rt.Wait()
				}
			}
		case "pseudo-header-over-limit":
			// the weight of the header list sits in a pseudo-header field: a :path longer than the limit, or a :path and a
			// regular field that only together exceed it
			rt.Open(gate)
			for s := 0; s < min(m, 4); s++ {
				tag := fmt.Sprintf("%s.%d", id, next)
				path := "/" + tag + "/" + randToken(lr, hdrLimit+500, "abcdefghijklmnopqrstuvwxyz0123456789")
				fs := []F{{Name: ":method", Value: "GET"}, {Name: ":scheme", Value: "https"}, {Name: ":path", Value: path}, {Name: ":authority", Value: "u.example"}, {Name: "x-vtag", Value: tag}}
				if lr.Intn(2) == 0 {
					fs[2].Value = path[:hdrLimit*6/10]
					fs = append(fs, F{Name: "x-filler", Value: randToken(lr, hdrLimit*6/10, "abcdefghijklmnopqrstuvwxyz0123456789")})
				}
				if !send(rt.Concat(rt.HeaderFrames(next, e.P.EncodeBlock(fs, nil), nil, -1, nil, true))) {
					break
				}
				rt.Wait()
				next += 2
			}
		case "blocked-streamed-responses":
			// the peer's stream windows are shut (INITIAL_WINDOW_SIZE 0) and the handlers answer at once with streamed bodies:
			// every response stays blocked, its stream open. Requests keep coming, one at a time, each after the previous
			// handler has returned: the streams that cannot finish still hold their slots.
			send(rt.SettingsFrame(wire.Setting{ID: 4, Val: 0}))
			rt.Wait()
			e.H.SetDefault(&rt.RespPlan{Status: 200, Body: make([]byte, 5000), Stream: 1 + lr.Intn(2)})
			rt.Open(gate)
			for i := 0; i < min(frames/4, 10*m+20); i++ {
				if !send(hdr(next, true)) {
					break
				}
				next += 2
				rt.Wait()
			}
		case "trailers-over-header-limit":
			// the header block and the trailer block are each within MaxHeaderListSize, together they are not; both end up in
			// the header list the handler is given
			rt.Open(gate)
			for s := 0; s < min(m, 4); s++ {
				tag := fmt.Sprintf("%s.%d", id, next)
				big := func(n int) string { return randToken(lr, n, "abcdefghijklmnopqrstuvwxyz0123456789") }
				share := hdrLimit * (55 + lr.Intn(35)) / 100
				fs := []F{{Name: ":method", Value: "POST"}, {Name: ":scheme", Value: "https"}, {Name: ":path", Value: "/up"}, {Name: ":authority", Value: "u.example"}, {Name: "x-vtag", Value: tag}, {Name: "x-filler", Value: big(max(1, share-250))}}
				out := rt.Concat(rt.HeaderFrames(next, e.P.EncodeBlock(fs, nil), nil, -1, nil, false))
				out = append(out, wire.Frame(nil, wire.TData, 0, next, []byte("body"), -1)...)
				tr := []F{{Name: "x-trailer-filler", Value: big(max(1, share-100))}}
				var splits []int
				if lr.Intn(2) == 0 {
					splits = []int{1 + lr.Intn(share/2+1)}
				}
				out = append(out, rt.Concat(rt.HeaderFrames(next, e.P.EncodeBlock(tr, nil), splits, -1, nil, true))...)
				if !send(out) {
					break
				}
				rt.Wait()
				next += 2
			}
		case "body-limit-boundary":
			// no content-length; the body creeps up to the limit and the last frame, with END_STREAM, crosses it
			for s := 0; s < m; s++ {
				fs := []F{{Name: ":method", Value: "POST"}, {Name: ":scheme", Value: "https"}, {Name: ":path", Value: "/up"}, {Name: ":authority", Value: "u.example"}, {Name: "x-vtag", Value: fmt.Sprintf("%s.%d", id, next)}}
				out := rt.Concat(rt.HeaderFrames(next, e.P.EncodeBlock(fs, nil), nil, -1, nil, false))
				short := []int{0, 0, 1, 100, 5000}[lr.Intn(5)]
				left := bodyLimit - short
				if left < 0 {
					left = 0
				}
				for left > 0 {
					k := min(left, 1+lr.Intn(16384))
					out = append(out, wire.Frame(nil, wire.TData, 0, next, make([]byte, k), -1)...)
					left -= k
				}
				over := short + 1 + lr.Intn(16384-short)
				out = append(out, wire.Frame(nil, wire.TData, wire.FEndStream, next, make([]byte, over), -1)...)
				if !send(out) {
					break
				}
				rt.Wait()
				next += 2
			}
		case "continuation-endless-literal-refused":
			// every slot is taken by a parked handler, so the next stream is refused and its header block only decoded
			// to keep the compression state: the never-ending literal must not be buffered there either
			for s := 0; s < m; s++ {
				send(hdr(next, true))
				next += 2
			}
			rt.Wait()
			blk := reqBlock(e.P, next, id)
			first := append(append([]byte{}, blk...), 0x00)
			first = hpackref.AppendInt(first, 0, 7, 1<<40)
			send(wire.Frame(nil, wire.THeaders, 0, next, first, -1))
			for i := 0; i < frames; i++ {
				if !send(wire.Frame(nil, wire.TContinuation, 0, next, make([]byte, 4096), -1)) {
					break
				}
				if i%50 == 0 {
					rt.Wait()
				}
			}
		case "ping-flood", "settings-flood", "ping-flood-no-read":
			if kind == "ping-flood-no-read" {
				e.P.StopReading()
			}
			done := make(chan struct{})
			go func() {
				defer close(done)
				for i := 0; i < frames*4; i++ {
					var b []byte
					if kind == "settings-flood" {
						b = rt.SettingsFrame(wire.Setting{ID: 4, Val: uint32(65535 + i%7)})
					} else {
						b = rt.Ping(false, "floodpng")
					}
					if e.P.Write(b) != nil {
						return
					}
				}
			}()
			rt.Wait()
			time.Sleep(2 * time.Second)
			rt.Wait()
		}
		rt.Wait()
		g, samples = gm.take()
		recs, _, mr, _ := e.H.Snapshot()
		maxRun = mr
		for _, rc := range recs {
			if rc.BodyLen > bodyLimit {
				viol = fmt.Sprintf("a handler was given a body of %d bytes, MaxRequestBodySize is %d", rc.BodyLen, bodyLimit)
			}
			if rc.HdrBytes > hdrLimit+256 {
				viol = fmt.Sprintf("a handler was given a header list of %d bytes (RFC 7540 6.5.2 size), MaxHeaderListSize is %d", rc.HdrBytes, hdrLimit)
			}
		}
		e.Finish()
	})
	if res.TimedOut {
		r.Inconclusive("real-time watchdog expired inside a bubble")
	}
	if res.Panic != "" {
		viol = "panic on the scenario goroutine: " + res.Panic
	}
	return g, samples, maxRun, viol
}
