package workers

import (
	"os"
	"strconv"
	"sync/atomic"

	http2 "github.com/dgrr/http2"

	"h2v/rt"
	"h2v/vf"
)

func strconvUnquote(s string) (string, error) { return strconv.Unquote(s) }

// Half of the bubbles of every reactive worker run with the library's perturbation points (hook H5)
// yielding or sleeping in virtual time; VERIF_PERTURB overrides the percentage.
func init() {
	rt.PerturbShare = 50
	if s := os.Getenv("VERIF_PERTURB"); s != "" {
		if v, err := strconv.Atoi(s); err == nil {
			rt.PerturbShare = v
		}
	}
}

// poisonHook is the default pool observer of every worker that does not install one of its own: a released object's
// buffers are overwritten at once (quarantine by poisoning), so that a slice kept past the release shows up in the
// integrity oracles instead of waiting for the pool to hand the object to somebody else.
var poisoned atomic.Int64

func poisonHook(kind string, obj any, acquire bool) bool {
	if !acquire {
		http2.VerifPoison(obj)
		poisoned.Add(1)
	}
	return false
}

func init() { if os.Getenv("VERIF_NOPOISON") == "" { http2.VerifSetPoolHook(poisonHook) } }

// perturbReport adds what the perturbation hook did to the evidence counters.
func perturbReport(r *vf.Run) {
	if n := poisoned.Load(); n > 0 {
		r.Inc("pooled_objects_overwritten_on_release", n)
	}
	cases, sleeps, yields, sites, orders := rt.PerturbStats()
	if cases == 0 {
		return
	}
	r.Inc("perturbed_cases", int64(cases))
	r.Inc("perturbation_virtual_sleeps", sleeps)
	r.Inc("perturbation_yields", yields)
	r.Inc("perturbation_distinct_point_orders(first 64 points, per shard)", int64(orders))
	for s, n := range sites {
		r.Inc("perturbation_point:"+s, n)
	}
}
