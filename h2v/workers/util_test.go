package workers

import (
	"os"
	"strconv"

	"h2v/rt"
	"h2v/vf"
)

func strconvUnquote(s string) (string, error) { return strconv.Unquote(s) }

// Half of the bubbles of every reactive worker run with the library's perturbation points (hook H5)
// yielding or sleeping in virtual time; VERIF_PERTURB overrides the percentage.
func init() {
	rt.PerturbShare = 50
	if s := os.Getenv("VERIF_PERTURB"); s != "" {
		if v, err := strconv.Atoi(s); err == nil {
			rt.PerturbShare = v
		}
	}
}

// perturbReport adds what the perturbation hook did to the evidence counters.
func perturbReport(r *vf.Run) {
	cases, sleeps, yields, sites, orders := rt.PerturbStats()
	if cases == 0 {
		return
	}
	r.Inc("perturbed_cases", int64(cases))
	r.Inc("perturbation_virtual_sleeps", sleeps)
	r.Inc("perturbation_yields", yields)
	r.Inc("perturbation_distinct_point_orders(first 64 points, per shard)", int64(orders))
	for s, n := range sites {
		r.Inc("perturbation_point:"+s, n)
	}
}
