package workers

import "strconv"

func strconvUnquote(s string) (string, error) { return strconv.Unquote(s) }
