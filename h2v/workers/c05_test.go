package workers

import (
	"bufio"
	"bytes"
	"encoding/binary"
	"fmt"
	"io"
	"math/rand"
	"testing"

	http2 "github.com/dgrr/http2"
	xh2 "golang.org/x/net/http2"

	"h2v/vf"
	"h2v/wire"
)

type fspec struct {
	Type       byte
	Stream     uint32
	EndStream  bool
	EndHeaders bool
	Ack        bool
	Padded     bool
	Priority   bool
	PadLen     int
	Data       []byte `json:"-"`
	DataLen    int
	Dep        uint32
	Excl       bool
	Weight     byte
	Code       uint32
	Last       uint32
	Incr       uint32
	Settings   []wire.Setting
	Promised   uint32
	ExtraFlags byte
	Reserved   bool // reserved bit of the stream id / last-stream-id / increment set on the wire
}

func (s fspec) String() string {
	return fmt.Sprintf("type=%d stream=%d es=%v eh=%v ack=%v padded=%v(pad %d) prio=%v(dep %d excl %v w %d) len=%d code=%d last=%d incr=%d settings=%v promised=%d extraflags=%#x reserved=%v",
		s.Type, s.Stream, s.EndStream, s.EndHeaders, s.Ack, s.Padded, s.PadLen, s.Priority, s.Dep, s.Excl, s.Weight, len(s.Data), s.Code, s.Last, s.Incr, s.Settings, s.Promised, s.ExtraFlags, s.Reserved)
}

// bytesOf builds the wire form of a well-formed frame from its spec (the independent writer).
func (s fspec) bytesOf() []byte {
	var flags byte = s.ExtraFlags
	var payload []byte
	switch s.Type {
	case wire.TData:
		if s.EndStream {
			flags |= wire.FEndStream
		}
		payload = s.Data
		if s.Padded {
			flags |= wire.FPadded
			payload = wire.Pad(payload, s.PadLen)
		}
	case wire.THeaders:
		if s.EndStream {
			flags |= wire.FEndStream
		}
		if s.EndHeaders {
			flags |= wire.FEndHeaders
		}
		if s.Priority {
			flags |= wire.FPriority
			payload = wire.PriorityFields(s.Dep, s.Excl, s.Weight)
		}
		payload = append(payload, s.Data...)
		if s.Padded {
			flags |= wire.FPadded
			payload = wire.Pad(payload, s.PadLen)
		}
	case wire.TPriority:
		payload = wire.PriorityFields(s.Dep, s.Excl, s.Weight)
	case wire.TRstStream:
		payload = wire.U32(s.Code)
	case wire.TSettings:
		if s.Ack {
			flags |= wire.FAck
		} else {
			payload = wire.SettingsPayload(s.Settings)
		}
	case wire.TPushPromise:
		if s.EndHeaders {
			flags |= wire.FEndHeaders
		}
		p := s.Promised
		if s.Reserved {
			p |= 1 << 31
		}
		payload = append(wire.U32(p), s.Data...)
		if s.Padded {
			flags |= wire.FPadded
			payload = wire.Pad(payload, s.PadLen)
		}
	case wire.TPing:
		if s.Ack {
			flags |= wire.FAck
		}
		payload = s.Data
	case wire.TGoAway:
		l := s.Last
		if s.Reserved {
			l |= 1 << 31
		}
		payload = wire.GoAwayPayload(l, s.Code, s.Data)
	case wire.TWindowUpdate:
		i := s.Incr
		if s.Reserved {
			i |= 1 << 31
		}
		payload = wire.U32(i)
	case wire.TContinuation:
		if s.EndHeaders {
			flags |= wire.FEndHeaders
		}
		payload = s.Data
	}
	st := s.Stream
	if s.Reserved {
		st |= 1 << 31
	}
	return wire.Frame(nil, s.Type, flags, st, payload, -1)
}

var sentinelPing = wire.Frame(nil, wire.TPing, 0, 0, []byte("SENTINEL"), -1)

// xnetCheck: the reference self-check — x/net must read the harness' bytes back to the spec.
func xnetCheck(s fspec, b []byte) error {
	fr := xh2.NewFramer(io.Discard, bytes.NewReader(b))
	fr.AllowIllegalReads = true
	fr.SetMaxReadFrameSize(1<<24 - 1)
	f, err := fr.ReadFrame()
	if err != nil {
		return fmt.Errorf("x/net rejects: %v", err)
	}
	return xnetCompare(s, f)
}

func xnetCompare(s fspec, f xh2.Frame) error {
	h := f.Header()
	if byte(h.Type) != s.Type || h.StreamID != s.Stream {
		return fmt.Errorf("header type=%d stream=%d", h.Type, h.StreamID)
	}
	switch x := f.(type) {
	case *xh2.DataFrame:
		if !bytes.Equal(x.Data(), s.Data) || x.StreamEnded() != s.EndStream {
			return fmt.Errorf("DATA len=%d es=%v", len(x.Data()), x.StreamEnded())
		}
	case *xh2.HeadersFrame:
		if !bytes.Equal(x.HeaderBlockFragment(), s.Data) || x.StreamEnded() != s.EndStream || x.HeadersEnded() != s.EndHeaders || x.HasPriority() != s.Priority {
			return fmt.Errorf("HEADERS block=%d es=%v eh=%v prio=%v", len(x.HeaderBlockFragment()), x.StreamEnded(), x.HeadersEnded(), x.HasPriority())
		}
		if s.Priority && (x.Priority.StreamDep != s.Dep || x.Priority.Weight != s.Weight || x.Priority.Exclusive != s.Excl) {
			return fmt.Errorf("HEADERS priority %+v", x.Priority)
		}
	case *xh2.PriorityFrame:
		if x.StreamDep != s.Dep || x.Weight != s.Weight || x.Exclusive != s.Excl {
			return fmt.Errorf("PRIORITY %+v", x.PriorityParam)
		}
	case *xh2.RSTStreamFrame:
		if uint32(x.ErrCode) != s.Code {
			return fmt.Errorf("RST code %d", x.ErrCode)
		}
	case *xh2.SettingsFrame:
		if x.IsAck() != s.Ack || (!s.Ack && x.NumSettings() != len(s.Settings)) {
			return fmt.Errorf("SETTINGS ack=%v n=%d", x.IsAck(), x.NumSettings())
		}
		for i := 0; !s.Ack && i < len(s.Settings); i++ {
			if st := x.Setting(i); uint16(st.ID) != s.Settings[i].ID || st.Val != s.Settings[i].Val {
				return fmt.Errorf("SETTINGS[%d]=%v", i, st)
			}
		}
	case *xh2.PushPromiseFrame:
		if x.PromiseID != s.Promised || !bytes.Equal(x.HeaderBlockFragment(), s.Data) || x.HeadersEnded() != s.EndHeaders {
			return fmt.Errorf("PUSH_PROMISE promised=%d block=%d eh=%v", x.PromiseID, len(x.HeaderBlockFragment()), x.HeadersEnded())
		}
	case *xh2.PingFrame:
		if !bytes.Equal(x.Data[:], s.Data) || x.IsAck() != s.Ack {
			return fmt.Errorf("PING %x ack=%v", x.Data, x.IsAck())
		}
	case *xh2.GoAwayFrame:
		if x.LastStreamID != s.Last || uint32(x.ErrCode) != s.Code || !bytes.Equal(x.DebugData(), s.Data) {
			return fmt.Errorf("GOAWAY last=%d code=%d debug=%d", x.LastStreamID, x.ErrCode, len(x.DebugData()))
		}
	case *xh2.WindowUpdateFrame:
		if x.Increment != s.Incr {
			return fmt.Errorf("WINDOW_UPDATE incr=%d", x.Increment)
		}
	case *xh2.ContinuationFrame:
		if !bytes.Equal(x.HeaderBlockFragment(), s.Data) || x.HeadersEnded() != s.EndHeaders {
			return fmt.Errorf("CONTINUATION block=%d eh=%v", len(x.HeaderBlockFragment()), x.HeadersEnded())
		}
	default:
		return fmt.Errorf("unexpected frame %T", f)
	}
	return nil
}

// sutCompare compares a frame parsed by the SUT with the spec.
func sutCompare(s fspec, fr *http2.FrameHeader, payloadLen int) string {
	if byte(fr.Type()) != s.Type {
		return fmt.Sprintf("type %d", fr.Type())
	}
	if fr.Stream() != s.Stream {
		return fmt.Sprintf("stream id %d want %d (reserved bit must be ignored)", fr.Stream(), s.Stream)
	}
	if fr.Len() != payloadLen {
		return fmt.Sprintf("Len()=%d want %d", fr.Len(), payloadLen)
	}
	switch b := fr.Body().(type) {
	case *http2.Data:
		if !bytes.Equal(b.Data(), s.Data) {
			return fmt.Sprintf("DATA payload %d bytes want %d (padding must be stripped)", len(b.Data()), len(s.Data))
		}
		if b.EndStream() != s.EndStream {
			return "DATA END_STREAM"
		}
	case *http2.Headers:
		if !bytes.Equal(b.Headers(), s.Data) {
			return fmt.Sprintf("HEADERS block %d bytes want %d", len(b.Headers()), len(s.Data))
		}
		if b.EndStream() != s.EndStream || b.EndHeaders() != s.EndHeaders {
			return fmt.Sprintf("HEADERS flags es=%v eh=%v", b.EndStream(), b.EndHeaders())
		}
		if s.Priority && (b.Stream() != s.Dep || b.Weight() != s.Weight) {
			return fmt.Sprintf("HEADERS priority dep=%d weight=%d want dep=%d weight=%d", b.Stream(), b.Weight(), s.Dep, s.Weight)
		}
	case *http2.Priority:
		if b.Stream() != s.Dep || b.Weight() != s.Weight {
			return fmt.Sprintf("PRIORITY dep=%d weight=%d want dep=%d weight=%d", b.Stream(), b.Weight(), s.Dep, s.Weight)
		}
	case *http2.RstStream:
		if uint32(b.Code()) != s.Code {
			return fmt.Sprintf("RST_STREAM code %d want %d", b.Code(), s.Code)
		}
	case *http2.Settings:
		if b.IsAck() != s.Ack {
			return "SETTINGS ack"
		}
		last := map[uint16]uint32{}
		for _, st := range s.Settings {
			last[st.ID] = st.Val
		}
		for id, v := range last {
			var got uint32
			switch id {
			case 1:
				got = b.HeaderTableSize()
			case 2:
				got = 0
				if b.Push() {
					got = 1
				}
			case 3:
				got = b.MaxConcurrentStreams()
			case 4:
				got = b.MaxWindowSize()
			case 5:
				got = b.MaxFrameSize()
			case 6:
				got = b.MaxHeaderListSize()
			default:
				continue
			}
			if got != v {
				return fmt.Sprintf("SETTINGS id %d = %d want %d", id, got, v)
			}
		}
	case *http2.PushPromise:
		// no accessors: only the framing is checked
	case *http2.Ping:
		if !bytes.Equal(b.Data(), s.Data) || b.IsAck() != s.Ack {
			return fmt.Sprintf("PING data %x ack %v", b.Data(), b.IsAck())
		}
	case *http2.GoAway:
		if b.Stream() != s.Last {
			return fmt.Sprintf("GOAWAY last-stream-id %d want %d (reserved bit must be ignored)", b.Stream(), s.Last)
		}
		if uint32(b.Code()) != s.Code || !bytes.Equal(b.Data(), s.Data) {
			return fmt.Sprintf("GOAWAY code %d debug %d bytes", b.Code(), len(b.Data()))
		}
	case *http2.WindowUpdate:
		if uint32(b.Increment()) != s.Incr {
			return fmt.Sprintf("WINDOW_UPDATE increment %d want %d", b.Increment(), s.Incr)
		}
	case *http2.Continuation:
		if !bytes.Equal(b.Headers(), s.Data) || b.EndHeaders() != s.EndHeaders {
			return fmt.Sprintf("CONTINUATION block %d bytes eh=%v", len(b.Headers()), b.EndHeaders())
		}
	default:
		return fmt.Sprintf("body %T", b)
	}
	return ""
}

func c05Parse(r *vf.Run, id string, s fspec) {
	b := s.bytesOf()
	if err := xnetCheck(s, b); err != nil {
		r.Inconclusive("harness: x/net does not read the generated frame back to its spec")
		r.Inc("reference_disagreement", 1)
		return
	}
	in := append(append([]byte{}, b...), sentinelPing...)
	replay := map[string]any{"spec": s.String(), "frame_hex": fmt.Sprintf("%x", b[:min(len(b), 64)])}
	r.Guard("C05.parse-panic", id, nil, replay, func() {
		br := bufio.NewReaderSize(bytes.NewReader(in), 4096)
		fr, err := http2.ReadFrameFromWithSize(br, 1<<24-1)
		if err != nil {
			r.Fail("C05.parse-rejects-wellformed", id, fmt.Sprintf("%s: error %v", s, err), nil, replay)
			return
		}
		if d := sutCompare(s, fr, len(b)-9); d != "" {
			r.Fail("C05.parse-mismatch", id, fmt.Sprintf("%s: %s", s, d), nil, replay)
			http2.ReleaseFrameHeader(fr)
			return
		}
		if s.Type != wire.TPushPromise {
			c05Reserialise(r, id+"r", s, fr, replay)
		}
		http2.ReleaseFrameHeader(fr)
		fr2, err := http2.ReadFrameFrom(br)
		if err != nil {
			r.Fail("C05.parse-consumed-wrong-length", id, fmt.Sprintf("%s: the next read does not return the sentinel frame: %v", s, err), nil, replay)
			return
		}
		p, ok := fr2.Body().(*http2.Ping)
		if !ok || string(p.Data()) != "SENTINEL" {
			r.Fail("C05.parse-consumed-wrong-length", id, fmt.Sprintf("%s: the next read is not the sentinel frame", s), nil, replay)
		}
		http2.ReleaseFrameHeader(fr2)
	})
	r.Eval(vf.Hash("parse", s.Type, s.EndStream, s.EndHeaders, s.Ack, s.Padded, s.PadLen, s.Priority, len(s.Data), s.Stream, s.ExtraFlags, s.Reserved, s.Dep, s.Incr, s.Last, s.Code, fmt.Sprint(s.Settings)), true)
}

// c05Write builds the frame through the public API, writes it, and lets x/net read it back.
func c05Write(r *vf.Run, id string, s fspec) {
	replay := map[string]any{"spec": s.String()}
	var out, out2, out3 bytes.Buffer
	var trig []string
	ok := true
	third := s
	r.Guard("C05.write-panic", id, nil, replay, func() {
		fr := http2.AcquireFrameHeader()
		defer http2.ReleaseFrameHeader(fr)
		fr.SetStream(s.Stream)
		if s.ExtraFlags != 0 {
			// undefined flag bits set by the caller must not disturb the rest of the frame
			fr.SetFlags(http2.FrameFlags(int8(s.ExtraFlags)))
		}
		switch s.Type {
		case wire.TData:
			d := http2.AcquireFrame(http2.FrameData).(*http2.Data)
			d.SetEndStream(s.EndStream)
			d.SetPadding(s.Padded)
			d.SetData(s.Data)
			fr.SetBody(d)
		case wire.THeaders:
			h := http2.AcquireFrame(http2.FrameHeaders).(*http2.Headers)
			h.SetEndStream(s.EndStream)
			h.SetEndHeaders(s.EndHeaders)
			h.SetPadding(s.Padded)
			h.SetHeaders(s.Data)
			fr.SetBody(h)
		case wire.TPriority:
			p := http2.AcquireFrame(http2.FramePriority).(*http2.Priority)
			p.SetStream(s.Dep)
			p.SetWeight(s.Weight)
			fr.SetBody(p)
		case wire.TRstStream:
			p := http2.AcquireFrame(http2.FrameResetStream).(*http2.RstStream)
			p.SetCode(http2.ErrorCode(s.Code))
			fr.SetBody(p)
		case wire.TSettings:
			p := http2.AcquireFrame(http2.FrameSettings).(*http2.Settings)
			p.SetAck(s.Ack)
			for _, st := range s.Settings {
				switch st.ID {
				case 1:
					p.SetHeaderTableSize(st.Val)
				case 2:
					p.SetPush(st.Val == 1)
				case 3:
					p.SetMaxConcurrentStreams(st.Val)
				case 4:
					p.SetMaxWindowSize(st.Val)
				case 5:
					p.SetMaxFrameSize(st.Val)
				case 6:
					p.SetMaxHeaderListSize(st.Val)
				}
			}
			fr.SetBody(p)
		case wire.TPushPromise:
			p := http2.AcquireFrame(http2.FramePushPromise).(*http2.PushPromise)
			p.SetHeader(s.Data)
			fr.SetBody(p)
			trig = append(trig, "frame.pushPromiseBuiltThroughAPI")
		case wire.TPing:
			p := http2.AcquireFrame(http2.FramePing).(*http2.Ping)
			p.SetAck(s.Ack)
			p.SetData(s.Data)
			fr.SetBody(p)
		case wire.TGoAway:
			p := http2.AcquireFrame(http2.FrameGoAway).(*http2.GoAway)
			p.SetStream(s.Last)
			p.SetCode(http2.ErrorCode(s.Code))
			p.SetData(s.Data)
			fr.SetBody(p)
		case wire.TWindowUpdate:
			p := http2.AcquireFrame(http2.FrameWindowUpdate).(*http2.WindowUpdate)
			p.SetIncrement(int(s.Incr))
			fr.SetBody(p)
		case wire.TContinuation:
			p := http2.AcquireFrame(http2.FrameContinuation).(*http2.Continuation)
			p.SetEndHeaders(s.EndHeaders)
			p.SetHeader(s.Data)
			fr.SetBody(p)
		}
		bw := bufio.NewWriterSize(&out, 1<<16)
		if _, err := fr.WriteTo(bw); err != nil {
			ok = false
			return
		}
		bw.Flush()
		// the same frame value written a second time, and a third time after its boolean fields were changed through the
		// same setters: what is written is what the value says at that moment, not what an earlier write left behind
		if s.Type == wire.TPushPromise || s.ExtraFlags != 0 {
			return
		}
		bw2 := bufio.NewWriterSize(&out2, 1<<16)
		if _, err := fr.WriteTo(bw2); err == nil {
			bw2.Flush()
		}
		switch body := fr.Body().(type) {
		case *http2.Data:
			body.SetEndStream(!s.EndStream)
			third.EndStream = !s.EndStream
		case *http2.Headers:
			body.SetEndStream(!s.EndStream)
			body.SetEndHeaders(!s.EndHeaders)
			third.EndStream, third.EndHeaders = !s.EndStream, !s.EndHeaders
		case *http2.Continuation:
			body.SetEndHeaders(!s.EndHeaders)
			third.EndHeaders = !s.EndHeaders
		case *http2.Ping:
			body.SetAck(!s.Ack)
			third.Ack = !s.Ack
		default:
			return
		}
		bw3 := bufio.NewWriterSize(&out3, 1<<16)
		if _, err := fr.WriteTo(bw3); err == nil {
			bw3.Flush()
		}
	})
	rewritten := func(which string, b2 []byte, want fspec) {
		if len(b2) == 0 {
			return
		}
		fr := xh2.NewFramer(io.Discard, bytes.NewReader(b2))
		fr.AllowIllegalReads = true
		fr.SetMaxReadFrameSize(1<<24 - 1)
		f, err := fr.ReadFrame()
		if err != nil {
			r.Fail("C05.rewrite-malformed", id, fmt.Sprintf("%s: %s: an independent parser rejects the bytes (%x…): %v", s, which, b2[:min(len(b2), 32)], err), []string{"frame.valueWrittenMoreThanOnce"}, replay)
			return
		}
		want.PadLen = 0
		if err := xnetCompare(want, f); err != nil {
			r.Fail("C05.rewrite-mismatch", id, fmt.Sprintf("%s: %s reads back as %v", s, which, err), []string{"frame.valueWrittenMoreThanOnce"}, replay)
			return
		}
		if 9+(int(b2[0])<<16|int(b2[1])<<8|int(b2[2])) != len(b2) {
			r.Fail("C05.rewrite-malformed", id, fmt.Sprintf("%s: %s: length field does not match the %d bytes written", s, which, len(b2)), []string{"frame.valueWrittenMoreThanOnce"}, replay)
		}
		r.Inc("frames_written_more_than_once", 1)
	}
	b := out.Bytes()
	if !ok || len(b) == 0 {
		return
	}
	if s.Type != wire.TSettings {
		defer func() {
			rewritten("the same value written a second time", out2.Bytes(), s)
			rewritten("written again after its END_STREAM / END_HEADERS / ACK fields were changed through the setters", out3.Bytes(), third)
		}()
	}
	// raw layout
	if len(b) < 9 {
		r.Fail("C05.write-malformed", id, fmt.Sprintf("%s: %d bytes written", s, len(b)), trig, replay)
		return
	}
	plen := int(b[0])<<16 | int(b[1])<<8 | int(b[2])
	if plen != len(b)-9 {
		r.Fail("C05.write-malformed", id, fmt.Sprintf("%s: length field %d but %d payload bytes written", s, plen, len(b)-9), trig, replay)
		return
	}
	if b[3] != s.Type || binary.BigEndian.Uint32(b[5:9]) != s.Stream {
		r.Fail("C05.write-malformed", id, fmt.Sprintf("%s: header says type %d stream %d", s, b[3], binary.BigEndian.Uint32(b[5:9])), trig, replay)
		return
	}
	want := s
	// SETTINGS: the values an independent reader ends up with must be the ones set through the API
	if s.Type == wire.TSettings {
		c05SettingsReadBack(r, id, s, b, replay)
		r.Eval(vf.Hash("write", s.String()), true)
		return
	}
	fr := xh2.NewFramer(io.Discard, bytes.NewReader(b))
	fr.AllowIllegalReads = true
	fr.SetMaxReadFrameSize(1<<24 - 1)
	f, err := fr.ReadFrame()
	if err != nil {
		r.Fail("C05.write-malformed", id, fmt.Sprintf("%s: an independent parser rejects the bytes (%x…): %v", s, b[:min(len(b), 32)], err), trig, replay)
		return
	}
	want.PadLen = 0
	if s.Type == wire.TPushPromise {
		// API offers no promised id: only check that the block survives
		pp := f.(*xh2.PushPromiseFrame)
		if !bytes.Equal(pp.HeaderBlockFragment(), s.Data) {
			r.Fail("C05.write-mismatch", id, fmt.Sprintf("%s: PUSH_PROMISE reads back with promised id %d and a %d-byte block (the API wrote no promised stream id)", s, pp.PromiseID, len(pp.HeaderBlockFragment())), trig, replay)
		}
		r.Eval(vf.Hash("write", s.String()), true)
		return
	}
	if err := xnetCompare(want, f); err != nil {
		r.Fail("C05.write-mismatch", id, fmt.Sprintf("%s: read back as %v", s, err), trig, replay)
		return
	}
	// padding octets: present when asked for, zero on the wire (RFC 7540 6.1)
	if s.Padded && (s.Type == wire.TData || s.Type == wire.THeaders) {
		if b[4]&wire.FPadded == 0 {
			r.Fail("C05.write-mismatch", id, fmt.Sprintf("%s: padding requested but PADDED flag not set", s), trig, replay)
			return
		}
		pl := int(b[9])
		pad := b[len(b)-pl:]
		for _, c := range pad {
			if c != 0 {
				r.Fail("C05.write-nonzero-padding", id, fmt.Sprintf("%s: padding octets are not zero (%x…)", s, pad[:min(len(pad), 16)]), trig, replay)
				break
			}
		}
		r.Inc("padded_frames_written", 1)
	}
	r.Eval(vf.Hash("write", s.String()), true)
}

// RFC 7540 6.5.2 initial values
var settingDefaults = map[uint16]uint32{1: 4096, 2: 1, 3: 0xffffffff, 4: 65535, 5: 16384, 6: 0xffffffff}

func c05SettingsReadBack(r *vf.Run, id string, s fspec, b []byte, replay any) {
	c05SettingsReadBackT(r, id, s, b, replay, nil)
}

func c05SettingsReadBackT(r *vf.Run, id string, s fspec, b []byte, replay any, extra []string) {
	fr := xh2.NewFramer(io.Discard, bytes.NewReader(b))
	fr.AllowIllegalReads = true
	f, err := fr.ReadFrame()
	if err != nil {
		r.Fail("C05.write-malformed", id, fmt.Sprintf("%s: an independent parser rejects the bytes: %v", s, err), nil, replay)
		return
	}
	sf, ok := f.(*xh2.SettingsFrame)
	if !ok || sf.IsAck() != s.Ack {
		r.Fail("C05.write-mismatch", id, fmt.Sprintf("%s: read back as %T ack=%v", s, f, ok && sf.IsAck()), nil, replay)
		return
	}
	if s.Ack {
		if sf.NumSettings() != 0 {
			r.Fail("C05.write-mismatch", id, "SETTINGS ACK with a payload", nil, replay)
		}
		return
	}
	eff := map[uint16]uint32{}
	for k, v := range settingDefaults {
		eff[k] = v
	}
	sf.ForeachSetting(func(st xh2.Setting) error { eff[uint16(st.ID)] = st.Val; return nil })
	lastSet := map[uint16]uint32{}
	for _, st := range s.Settings {
		lastSet[st.ID] = st.Val
	}
	for _, st := range s.Settings {
		if lastSet[st.ID] != st.Val || st.ID < 1 || st.ID > 6 {
			continue
		}
		want := st.Val
		if st.ID == 6 && want == 0 {
			want = 0xffffffff // the API documents 0 as "no limit"
		}
		trig := append([]string{}, extra...)
		if st.Val == 0 && (st.ID == 1 || st.ID == 3 || st.ID == 4) {
			trig = []string{"settings.zeroValueBuiltThroughAPI"}
		}
		if st.ID == 2 && st.Val == 0 {
			trig = []string{"settings.pushDisabledBuiltThroughAPI"}
		}
		if eff[st.ID] != want {
			r.Fail("C05.write-settings-value-lost", id, fmt.Sprintf("%s: the API was told id %d = %d, a reader of the frame ends up with %d", s, st.ID, st.Val, eff[st.ID]), trig, replay)
			return
		}
	}
}

func c05Sizes(r *vf.Run) []int {
	s := []int{0, 1, 2, 5, 8, 9, 100, 255, 256, 1000, 16383, 16384}
	if r.Thorough() {
		s = append(s, 3, 4, 6, 7, 10, 63, 64, 127, 128, 4096, 16385, 65535, 1<<20)
	}
	return s
}

func TestC05(t *testing.T) {
	r := vf.Begin(t, "C05")
	defer r.End()
	r.Describe("cross product of the 10 frame types x every defined flag combination x payload-size points (0..16384; thorough adds every DATA/HEADERS/CONTINUATION length 0..16384 and up to 1 MiB) x stream-id/value points (0,1,2,2^31-1,PRNG) x padding lengths {0,1,7,255} x undefined flag bits and reserved bits; "+
		"write direction: frame built through the public setters, WriteTo, read back by x/net's Framer; parse direction: bytes from the harness' raw writer (self-checked with x/net), ReadFrameFromWithSize, then a sentinel PING must be the next frame. PRNG specs on top. "+
		"Distinct = distinct (direction, full spec) tuples; every frame is non-trivial.",
		"x/net/http2 Framer reads frames correctly (AllowIllegalReads so that it reports rather than rejects)",
		"the API cannot represent the PRIORITY exclusive bit, PUSH_PROMISE accessors, or stream ids >= 2^31 (SetStream documents that it does not mask): those are outside the compared fields")

	ids := []uint32{1, 2, 3, 1<<31 - 1, 0x12345677}
	sizes := c05Sizes(r)
	ci := 0
	next := func(kind string) (string, bool) {
		ci++
		id := fmt.Sprintf("%s/%d", kind, ci)
		return id, r.Want(ci, id)
	}
	payload := func(n int, salt int) []byte {
		b := make([]byte, n)
		rand.New(rand.NewSource(int64(n*31+salt))).Read(b)
		return b
	}
	bools := []bool{false, true}

	// ---- grid, both directions ---------------------------------------------------
	for _, n := range sizes {
		for _, sid := range ids {
			for _, es := range bools {
				// DATA
				for _, pad := range []int{-1, 0, 1, 7, 255} {
					s := fspec{Type: wire.TData, Stream: sid, EndStream: es, Data: payload(n, 1), Padded: pad >= 0, PadLen: max(pad, 0)}
					if id, ok := next("data"); ok {
						c05Parse(r, id, s)
						if pad <= 0 {
							c05Write(r, id+"w", s)
						}
					}
				}
				for _, eh := range bools {
					// HEADERS
					for _, prio := range bools {
						for _, pad := range []int{-1, 0, 3, 255} {
							s := fspec{Type: wire.THeaders, Stream: sid, EndStream: es, EndHeaders: eh, Data: payload(n, 2), Padded: pad >= 0, PadLen: max(pad, 0),
								Priority: prio, Dep: (sid + 2) & (1<<31 - 1), Weight: byte(n), Excl: n%2 == 1}
							if id, ok := next("headers"); ok {
								c05Parse(r, id, s)
								if !prio && pad <= 0 {
									c05Write(r, id+"w", s)
								}
							}
						}
					}
				}
			}
			for _, eh := range bools {
				s := fspec{Type: wire.TContinuation, Stream: sid, EndHeaders: eh, Data: payload(n, 3)}
				if id, ok := next("cont"); ok {
					c05Parse(r, id, s)
					c05Write(r, id+"w", s)
				}
				for _, pad := range []int{-1, 0, 9} {
					s := fspec{Type: wire.TPushPromise, Stream: sid, EndHeaders: eh, Data: payload(n, 4), Promised: 2 + sid&0xfffffe, Padded: pad >= 0, PadLen: max(pad, 0)}
					if id, ok := next("pp"); ok {
						c05Parse(r, id, s)
						if pad < 0 && n < 300 {
							c05Write(r, id+"w", s)
						}
					}
				}
			}
		}
		// GOAWAY debug data of size n
		for _, last := range []uint32{0, 1, 1<<31 - 1} {
			for _, code := range []uint32{0, 1, 13, 0xffffffff} {
				for _, res := range bools {
					s := fspec{Type: wire.TGoAway, Last: last, Code: code, Data: payload(n, 5), Reserved: res}
					if id, ok := next("goaway"); ok {
						c05Parse(r, id, s)
						if !res {
							c05Write(r, id+"w", s)
						}
					}
				}
			}
		}
	}
	for _, sid := range append(ids, 0) {
		for _, dep := range []uint32{0, 1, 5, 1<<31 - 1} {
			for _, w := range []byte{0, 1, 15, 255} {
				for _, ex := range bools {
					s := fspec{Type: wire.TPriority, Stream: sid, Dep: dep, Weight: w, Excl: ex}
					if id, ok := next("prio"); ok && sid != 0 {
						c05Parse(r, id, s)
						if !ex {
							c05Write(r, id+"w", s)
						}
					}
				}
			}
		}
		for _, code := range []uint32{0, 1, 2, 8, 13, 14, 255, 0xffffffff} {
			s := fspec{Type: wire.TRstStream, Stream: sid, Code: code}
			if id, ok := next("rst"); ok && sid != 0 {
				c05Parse(r, id, s)
				c05Write(r, id+"w", s)
			}
		}
		for _, inc := range []uint32{1, 2, 65535, 1 << 16, 1<<31 - 2, 1<<31 - 1} {
			for _, res := range bools {
				s := fspec{Type: wire.TWindowUpdate, Stream: sid, Incr: inc, Reserved: res}
				if id, ok := next("wu"); ok {
					c05Parse(r, id, s)
					if !res {
						c05Write(r, id+"w", s)
					}
				}
			}
		}
	}
	for _, ack := range bools {
		for _, d := range [][]byte{[]byte("\x00\x00\x00\x00\x00\x00\x00\x00"), []byte("12345678"), []byte("\xff\xff\xff\xff\xff\xff\xff\xff")} {
			s := fspec{Type: wire.TPing, Ack: ack, Data: d}
			if id, ok := next("ping"); ok {
				c05Parse(r, id, s)
				c05Write(r, id+"w", s)
			}
		}
	}
	// SETTINGS: every subset of the six parameters x value points; repeats; unknown ids
	valPts := map[uint16][]uint32{
		1: {0, 1, 4096, 65536, 0xffffffff}, 2: {0, 1}, 3: {0, 1, 100, 0xffffffff}, 4: {0, 1, 65535, 1<<31 - 1},
		5: {16384, 16385, 1<<24 - 1}, 6: {0, 1, 16384, 0xffffffff},
	}
	for mask := 0; mask < 64; mask++ {
		for vp := 0; vp < 5; vp++ {
			var ss []wire.Setting
			for id := uint16(1); id <= 6; id++ {
				if mask&(1<<(id-1)) != 0 {
					v := valPts[id]
					ss = append(ss, wire.Setting{ID: id, Val: v[vp%len(v)]})
				}
			}
			s := fspec{Type: wire.TSettings, Settings: ss}
			if id, ok := next("settings"); ok {
				c05Parse(r, id, s)
				c05Write(r, id+"w", s)
				// with an unknown id and a repeated id in front
				s2 := s
				s2.Settings = append([]wire.Setting{{ID: 0x99, Val: 7}, {ID: 3, Val: 5}}, ss...)
				c05Parse(r, id+"u", s2)
			}
		}
	}
	if id, ok := next("settings"); ok {
		c05Parse(r, id, fspec{Type: wire.TSettings, Ack: true})
		c05Write(r, id+"w", fspec{Type: wire.TSettings, Ack: true})
	}
	// undefined flag bits must be ignored on every type
	for typ := byte(0); typ <= 9; typ++ {
		for _, extra := range []byte{0x02, 0x10, 0x40, 0x80, 0xd2} {
			s := fspec{Type: typ, Stream: 1, ExtraFlags: extra, Data: payload(8, 9), Incr: 5, Dep: 3, Promised: 2, Code: 1}
			if typ == wire.TSettings || typ == wire.TPing || typ == wire.TGoAway {
				s.Stream = 0
			}
			if typ == wire.TSettings {
				s.Data = nil
				s.Settings = []wire.Setting{{ID: 3, Val: 9}}
			}
			if id, ok := next("xflags"); ok {
				c05Parse(r, id, s)
				if typ != wire.TPushPromise {
					c05Write(r, id+"w", s)
				}
			}
			s.Reserved = true
			if id, ok := next("reserved"); ok {
				c05Parse(r, id, s)
			}
		}
	}
	r.Exhaustive("frame type x defined-flag combinations x listed size/id/value points (grid)")

	// ---- thorough: every length 0..16384 for the three block-carrying types --------
	if r.Thorough() {
		for n := 0; n <= 16384; n++ {
			if id, ok := next("len"); ok {
				c05Parse(r, id, fspec{Type: wire.TData, Stream: 1, Data: payload(n, 7), Padded: n%3 == 0, PadLen: n % 256})
				c05Parse(r, id, fspec{Type: wire.THeaders, Stream: 3, Data: payload(n, 8), EndHeaders: true, Priority: n%2 == 0, Dep: 1, Weight: byte(n)})
				c05Parse(r, id, fspec{Type: wire.TContinuation, Stream: 3, Data: payload(n, 9)})
				c05Write(r, id+"w", fspec{Type: wire.TData, Stream: 1, Data: payload(n, 7), EndStream: n%2 == 0})
				c05Write(r, id+"w", fspec{Type: wire.THeaders, Stream: 3, Data: payload(n, 8), EndHeaders: true})
			}
		}
	}

	// ---- PRNG specs ---------------------------------------------------------------------
	nr := r.Pick(20000, 1000000)
	for i := 0; i < nr; i++ {
		id := fmt.Sprintf("rand/%d", i)
		if !r.Want(i, id) {
			continue
		}
		rng := r.Rand(id)
		s := fspec{Type: byte(rng.Intn(10)), Stream: 1 + uint32(rng.Int31n(1<<31-1)), EndStream: rng.Intn(2) == 0, EndHeaders: rng.Intn(2) == 0, Ack: rng.Intn(2) == 0,
			Padded: rng.Intn(3) == 0, PadLen: rng.Intn(256), Priority: rng.Intn(2) == 0, Dep: uint32(rng.Int31()), Excl: rng.Intn(2) == 0, Weight: byte(rng.Intn(256)),
			Code: rng.Uint32(), Last: uint32(rng.Int31()), Incr: 1 + uint32(rng.Int31n(1<<31-1)), Promised: uint32(rng.Int31()), Reserved: rng.Intn(4) == 0}
		n := rng.Intn(300)
		if rng.Intn(10) == 0 {
			n = rng.Intn(20000)
		}
		s.Data = make([]byte, n)
		rng.Read(s.Data)
		switch s.Type {
		case wire.TSettings:
			s.Stream, s.Data = 0, nil
			for k := rng.Intn(8); k > 0; k-- {
				idd := uint16(1 + rng.Intn(6))
				v := valPts[idd]
				s.Settings = append(s.Settings, wire.Setting{ID: idd, Val: v[rng.Intn(len(v))]})
			}
			if s.Ack {
				s.Settings = nil
			}
		case wire.TPing:
			s.Stream = 0
			s.Data = s.Data[:0]
			s.Data = append(s.Data, make([]byte, 8)...)
			rng.Read(s.Data)
		case wire.TGoAway:
			s.Stream = 0
		}
		if r.WantSample() {
			r.Sample(map[string]any{"case": id, "spec": s.String()})
		}
		c05Parse(r, id, s)
		if !s.Reserved && !(s.Type == wire.THeaders && s.Priority) && !(s.Type == wire.TPriority && s.Excl) && s.Type != wire.TPushPromise {
			c05Write(r, id+"w", s)
		}
	}
}

// c05Reserialise writes a frame the SUT has just parsed (the forwarding use case) and lets x/net read it back.
func c05Reserialise(r *vf.Run, id string, s fspec, fr *http2.FrameHeader, replay any) {
	var out bytes.Buffer
	bw := bufio.NewWriterSize(&out, 1<<16)
	if _, err := fr.WriteTo(bw); err != nil {
		return
	}
	bw.Flush()
	b := out.Bytes()
	want := s
	want.Padded, want.PadLen, want.Excl, want.Reserved = false, 0, false, false
	var trig []string
	if s.Padded {
		trig = append(trig, "frame.reserialisedAfterPaddedParse")
	}
	if s.Type == wire.THeaders && s.Priority {
		trig = append(trig, "frame.reserialisedHeadersWithPriority")
	}
	if s.Type == wire.TSettings {
		for _, st := range s.Settings {
			if st.Val == 0 && (st.ID == 1 || st.ID == 3 || st.ID == 4) {
				trig = append(trig, "settings.zeroValueBuiltThroughAPI")
			}
		}
		c05SettingsReadBackT(r, id, want, b, replay, trig)
		return
	}
	xf := xh2.NewFramer(io.Discard, bytes.NewReader(b))
	xf.AllowIllegalReads = true
	xf.SetMaxReadFrameSize(1<<24 - 1)
	f, err := xf.ReadFrame()
	if err != nil {
		r.Fail("C05.reserialise-malformed", id, fmt.Sprintf("%s: parsed and written again (%x…): an independent parser rejects it: %v", s, b[:min(len(b), 24)], err), trig, replay)
		return
	}
	if err := xnetCompare(want, f); err != nil {
		r.Fail("C05.reserialise-mismatch", id, fmt.Sprintf("%s: parsed and written again reads back as %v", s, err), trig, replay)
	}
	r.Inc("reserialised", 1)
}
