package workers

import (
	"fmt"
	"math/rand"
	"strings"
	"testing"
	"time"

	"h2v/hpackref"
	"h2v/rt"
	"h2v/vf"
	"h2v/wire"
)

// c20Mutation turns a well-formed request into a malformed one and names the rule it breaks.
type c20Mutation struct {
	Name  string
	Apply func(rng *rand.Rand, s *reqSpec) bool // false: not applicable to this request
}

func insertAt(fs []F, i int, f F) []F {
	out := append([]F{}, fs[:i]...)
	out = append(out, f)
	return append(out, fs[i:]...)
}

func removePseudo(s *reqSpec, name string) bool {
	for i, f := range s.Pseudo {
		if f.Name == name {
			s.Pseudo = append(append([]F{}, s.Pseudo[:i]...), s.Pseudo[i+1:]...)
			return true
		}
	}
	return false
}

func dropContentLength(s *reqSpec) {
	var fs []F
	for _, f := range s.Fields {
		if f.Name != "content-length" {
			fs = append(fs, f)
		}
	}
	s.Fields = fs
}

var c20Mutations = []c20Mutation{
	{"missing-:method", func(rng *rand.Rand, s *reqSpec) bool { return removePseudo(s, ":method") }},
	{"missing-:scheme", func(rng *rand.Rand, s *reqSpec) bool { return removePseudo(s, ":scheme") }},
	{"missing-:path", func(rng *rand.Rand, s *reqSpec) bool { return removePseudo(s, ":path") }},
	{"empty-:path", func(rng *rand.Rand, s *reqSpec) bool {
		for i := range s.Pseudo {
			if s.Pseudo[i].Name == ":path" {
				s.Pseudo[i].Value = ""
			}
		}
		return true
	}},
	{"duplicate-pseudo", func(rng *rand.Rand, s *reqSpec) bool {
		f := s.Pseudo[rng.Intn(len(s.Pseudo))]
		s.Pseudo = insertAt(s.Pseudo, rng.Intn(len(s.Pseudo)+1), f)
		return true
	}},
	{"duplicate-pseudo-different-value", func(rng *rand.Rand, s *reqSpec) bool {
		i := rng.Intn(len(s.Pseudo))
		f := s.Pseudo[i]
		f.Value = []string{"", "/other", "GET", "x", f.Value + "2"}[rng.Intn(5)]
		// the odd one goes before or after the original
		if rng.Intn(2) == 0 {
			s.Pseudo = insertAt(s.Pseudo, i, f)
		} else {
			s.Pseudo = insertAt(s.Pseudo, i+1, f)
		}
		return true
	}},
	{"empty-pseudo-before-the-real-one", func(rng *rand.Rand, s *reqSpec) bool {
		// a pseudo-header sent twice, first with an empty value: "seen before" must not be inferred from a non-empty value
		i := rng.Intn(len(s.Pseudo))
		f := s.Pseudo[i]
		f.Value = ""
		s.Pseudo = insertAt(s.Pseudo, i, f)
		return true
	}},
	{"pseudo-after-regular", func(rng *rand.Rand, s *reqSpec) bool {
		i := rng.Intn(len(s.Pseudo))
		f := s.Pseudo[i]
		s.Pseudo = append(append([]F{}, s.Pseudo[:i]...), s.Pseudo[i+1:]...)
		s.Fields = insertAt(s.Fields, 1+rng.Intn(len(s.Fields)), f)
		return true
	}},
	{"unknown-pseudo", func(rng *rand.Rand, s *reqSpec) bool {
		s.Pseudo = insertAt(s.Pseudo, rng.Intn(len(s.Pseudo)+1), F{Name: []string{":foo", ":status", ":protocol-x", ":"}[rng.Intn(4)], Value: "200"})
		return true
	}},
	{"uppercase-name", func(rng *rand.Rand, s *reqSpec) bool {
		i := 1 + rng.Intn(len(s.Fields))
		name := "x-" + randToken(rng, 1+rng.Intn(8), "abcdefghijklmnopqrstuvwxyz")
		b := []byte(name)
		p := rng.Intn(len(b))
		if b[p] < 'a' || b[p] > 'z' {
			p = len(b) - 1
		}
		b[p] -= 32
		s.Fields = insertAt(s.Fields, i, F{Name: string(b), Value: "v"})
		return true
	}},
	{"connection-specific", func(rng *rand.Rand, s *reqSpec) bool {
		f := []F{{Name: "connection", Value: "keep-alive"}, {Name: "keep-alive", Value: "timeout=5"}, {Name: "proxy-connection", Value: "keep-alive"}, {Name: "transfer-encoding", Value: "chunked"}, {Name: "upgrade", Value: "h2c"}, {Name: "connection", Value: "close"}}[rng.Intn(6)]
		s.Fields = insertAt(s.Fields, 1+rng.Intn(len(s.Fields)), f)
		return true
	}},
	{"te-not-trailers", func(rng *rand.Rand, s *reqSpec) bool {
		var fs []F
		for _, f := range s.Fields {
			if f.Name != "te" {
				fs = append(fs, f)
			}
		}
		s.Fields = insertAt(fs, 1+rng.Intn(len(fs)), F{Name: "te", Value: []string{"gzip", "trailers, deflate", "deflate", "", "Trailers"}[rng.Intn(5)]})
		return true
	}},
	{"content-length-not-a-number", func(rng *rand.Rand, s *reqSpec) bool {
		dropContentLength(s)
		s.Fields = append(s.Fields, F{Name: "content-length", Value: []string{"abc", "", "-1", "1e3", "0x10", "12 ", "+5", "18446744073709551621", "99999999999999999999999"}[rng.Intn(9)]})
		return true
	}},
	{"content-length-overflow-matching-low-bits", func(rng *rand.Rand, s *reqSpec) bool {
		dropContentLength(s)
		// 2^64 + len(body): wraps to len(body) in 64-bit arithmetic
		s.Body = []byte("12345")
		s.Fields = append(s.Fields, F{Name: "content-length", Value: "18446744073709551621"})
		if s.EndMode == 0 {
			s.EndMode = 1
		}
		return true
	}},
	{"content-length-mismatch", func(rng *rand.Rand, s *reqSpec) bool {
		dropContentLength(s)
		n := len(s.Body)
		d := []int{-1, 1, 100, -n}[rng.Intn(4)]
		if n+d < 0 || d == 0 {
			d = 1
		}
		s.Fields = append(s.Fields, F{Name: "content-length", Value: fmt.Sprint(n + d)})
		return true
	}},
	{"pseudo-in-trailers", func(rng *rand.Rand, s *reqSpec) bool {
		if len(s.Trailers) == 0 {
			return false
		}
		s.Trailers = insertAt(s.Trailers, rng.Intn(len(s.Trailers)+1), F{Name: []string{":path", ":method", ":status"}[rng.Intn(3)], Value: "/x"})
		return true
	}},
	{"uppercase-in-trailers", func(rng *rand.Rand, s *reqSpec) bool {
		if len(s.Trailers) == 0 {
			return false
		}
		s.Trailers = append(s.Trailers, F{Name: "X-Trailer-Up", Value: "v"})
		return true
	}},
	{"content-length-mismatch-put-right-in-trailers", func(rng *rand.Rand, s *reqSpec) bool {
		// the request declares a length its body does not have; a second content-length, in the trailers, names the true
		// one. The field the request was framed with is still wrong.
		if s.EndMode != 3 || len(s.Trailers) == 0 {
			return false
		}
		dropContentLength(s)
		n := len(s.Body)
		s.Fields = append(s.Fields, F{Name: "content-length", Value: fmt.Sprint(n + 1 + rng.Intn(50))})
		s.Trailers = append(s.Trailers, F{Name: "content-length", Value: fmt.Sprint(n)})
		return true
	}},
}

// c20PseudoOnlyThenTrailers: a request whose header block holds pseudo-headers only (no regular field at all, :authority
// left out), a body, and a trailer block that carries a pseudo-header: "all pseudo-headers before the regular fields" has
// nothing to go by in the first block, and pseudo-headers are not allowed in trailers (RFC 7540 8.1.2.1).
func c20PseudoOnlyThenTrailers(rng *rand.Rand, s *reqSpec) bool {
	if s.EndMode != 3 || len(s.Trailers) == 0 {
		return false
	}
	s.Fields = nil
	removePseudo(s, ":authority")
	tr := []F{{Name: ":authority", Value: "late.example"}, {Name: ":path", Value: "/late"}, {Name: ":method", Value: "DELETE"}}[rng.Intn(3)]
	if tr.Name != ":authority" || rng.Intn(2) == 0 {
		s.Trailers = insertAt(s.Trailers, rng.Intn(len(s.Trailers)+1), tr)
	} else {
		s.Trailers = []F{tr}
	}
	return true
}

// wellFormedRequest is the predicate of the property statement (RFC 7540 8.1.2), over the header list in wire order.
func wellFormedRequest(list []F, trailers []F, bodyLen int) (bool, string) {
	seen := map[string]int{}
	regular := false
	connSpecific := map[string]bool{"connection": true, "keep-alive": true, "proxy-connection": true, "transfer-encoding": true, "upgrade": true}
	for _, f := range list {
		for _, c := range []byte(f.Name) {
			if c >= 'A' && c <= 'Z' {
				return false, "upper-case name " + f.Name
			}
		}
		if strings.HasPrefix(f.Name, ":") {
			if regular {
				return false, "pseudo-header after a regular field"
			}
			switch f.Name {
			case ":method", ":scheme", ":path", ":authority":
			default:
				return false, "unknown pseudo-header " + f.Name
			}
			seen[f.Name]++
			if seen[f.Name] > 1 {
				return false, "duplicate " + f.Name
			}
			if f.Name == ":path" && f.Value == "" {
				return false, "empty :path"
			}
			continue
		}
		regular = true
		if connSpecific[f.Name] {
			return false, "connection-specific field " + f.Name
		}
		if f.Name == "te" && f.Value != "trailers" {
			return false, "te other than trailers"
		}
		if f.Name == "content-length" {
			if f.Value == "" {
				return false, "empty content-length"
			}
			for _, c := range []byte(f.Value) {
				if c < '0' || c > '9' {
					return false, "non-numeric content-length"
				}
			}
			if strings.TrimLeft(f.Value, "0") != strings.TrimLeft(fmt.Sprint(bodyLen), "0") {
				return false, "content-length differs from the body length"
			}
		}
	}
	if seen[":method"] == 0 || seen[":scheme"] == 0 || seen[":path"] == 0 {
		return false, "mandatory pseudo-header missing"
	}
	for _, f := range trailers {
		for _, c := range []byte(f.Name) {
			if c >= 'A' && c <= 'Z' {
				return false, "upper-case name in trailers"
			}
		}
		if strings.HasPrefix(f.Name, ":") {
			return false, "pseudo-header in trailers"
		}
		if connSpecific[f.Name] {
			return false, "connection-specific field in trailers"
		}
	}
	return true, ""
}

func TestC20(t *testing.T) {
	r := vf.Begin(t, "C20")
	defer r.End()
	defer perturbReport(r)
	r.Describe("client half (every third case): one response among 2-5 made malformed by 1-2 rule violations (missing/duplicate/late/invalid :status, request or unknown pseudo-header, upper-case name, connection-specific field, non-numeric content-length, pseudo-header or upper-case in trailers), optionally replayed through table indexes; the caller of that request gets nil iff an independent predicate says well-formed, every other caller and a probe afterwards get exactly their responses, no GOAWAY. "+
		"server half: labelled header lists - well-formed requests of every shape the property names (repeated fields, several cookie fields, te: trailers, content-length on bodiless methods, HEAD/OPTIONS, long values, bodies, trailers) and malformed ones made by 1-2 rule violations "+
		"(each pseudo-header missing/duplicated/late/unknown/response pseudo-header, empty :path, upper-case at any position, each connection-specific name, te other than trailers, content-length non-numeric/empty/negative/overflowing/mismatching, pseudo-header or upper-case in trailers), "+
		"placed among 0-3 well-formed requests before and 1-2 after on one connection (synctest bubble). Oracle: handler ran for the tag iff well-formed; a malformed request is refused on its stream alone with RST_STREAM(PROTOCOL_ERROR) or a 4xx response, no GOAWAY, and every other request is served intact (C01's integrity oracle). "+
		"Distinct = distinct (violated rules, position, body/trailers shape).",
		"the list of rules is exactly the one in the property statement; CONNECT and characters outside the token/field-value grammar are not generated",
		"malformed requests are encoded without dynamic-table insertions and in one HEADERS frame so that HPACK accounting and frames-after-reset (C09's subject) do not interfere")
	n := r.Pick(3600, 120000)
	g := genOpts{MaxBody: 3000, AllowTrail: true, AllowUnder: true, RespStream: false, MaxRespBody: 2000}
	for i := 0; i < n; i++ {
		id := fmt.Sprintf("m%d", i)
		if !r.Want(i, id) {
			continue
		}
		r.Progress(id, "")
		if i%3 == 2 {
			c20Client(r, t, id, r.Rand(id))
		} else {
			c20Scenario(r, t, id, r.Rand(id), g)
		}
	}
}

func stateless(s *reqSpec) {
	for i := range s.Choices {
		if s.Choices[i].Rep == hpackref.RepIncremental || s.Choices[i].Rep == hpackref.RepIndexed {
			s.Choices[i].Rep = hpackref.RepWithout
		}
	}
}

func c20Scenario(r *vf.Run, t *testing.T, id string, rng *rand.Rand, g genOpts) {
	nBefore := rng.Intn(4)
	nAfter := 1 + rng.Intn(2)
	var reqs []*reqSpec
	for i := 0; i < nBefore+1+nAfter; i++ {
		q := genRequest(rng, id, i, g)
		stateless(q)
		reqs = append(reqs, q)
	}
	bad := reqs[nBefore]
	if rng.Intn(3) != 0 {
		bad.SplitSeed, bad.TrailerSplits = nil, nil
	} else if len(bad.SplitSeed) == 0 {
		// the offending block continued in CONTINUATION frames, cut anywhere: what makes a list malformed is a property of
		// the list, not of the frames it came in
		bad.SplitSeed = []int{rng.Intn(1 << 20)}
		if rng.Intn(2) == 0 {
			bad.SplitSeed = append(bad.SplitSeed, rng.Intn(1<<20))
		}
	}
	var rules []string
	wellFormed := rng.Intn(5) == 0
	if !wellFormed && rng.Intn(6) == 0 && c20PseudoOnlyThenTrailers(rng, bad) {
		rules = append(rules, "pseudo-in-trailers-of-a-request-without-regular-fields")
	} else if !wellFormed {
		for k := 1 + rng.Intn(2); k > 0; k-- {
			m := c20Mutations[rng.Intn(len(c20Mutations))]
			if m.Apply(rng, bad) {
				rules = append(rules, m.Name)
			}
		}
	}
	// A pseudo-header left alone with an empty value (an empty copy was inserted and another mutation removed the real
	// one) has a value outside the token grammar, which the property leaves out (RFC 7540 does not fix its treatment):
	// give it a valid value again. An empty :path stays, the property names it.
	{
		count := map[string]int{}
		for _, f := range bad.Pseudo {
			count[f.Name]++
		}
		for i, f := range bad.Pseudo {
			if f.Value == "" && count[f.Name] == 1 {
				switch f.Name {
				case ":method":
					bad.Pseudo[i].Value = "GET"
				case ":scheme":
					bad.Pseudo[i].Value = "https"
				case ":authority":
					bad.Pseudo[i].Value = "refilled.example"
				}
			}
		}
	}
	for _, ru := range rules {
		if ru == "pseudo-after-regular" && rng.Intn(2) == 0 {
			// where a list is malformed by the order of its fields, the fields are also spread over several frames
			bad.SplitSeed = nil
			for c := 0; c < 10; c++ {
				bad.SplitSeed = append(bad.SplitSeed, rng.Intn(1<<20))
			}
		}
	}
	// the verdict comes from the predicate, not from the labels (two mutations can cancel)
	wfReason := ""
	wellFormed, wfReason = wellFormedRequest(append(append([]F{}, bad.Pseudo...), bad.Fields...), bad.Trailers, len(bad.Body))
	viaRoll := rng.Intn(3) == 0
	viaIndex := !wellFormed && viaRoll && bad.EndMode == 0
	if viaIndex {
		// later requests use ids above the replayed one
		for i := nBefore + 1; i < len(reqs); i++ {
			reqs[i].Stream += 2000
		}
	}
	hugeCL := false
	for _, f := range bad.Fields {
		if f.Name == "content-length" && len(strings.TrimLeft(f.Value, "0123456789")) == 0 && len(strings.TrimLeft(f.Value, "0")) > 9 {
			hugeCL = true
		}
	}
	// when the offence is visible in the header block and more frames follow on the stream (DATA, trailers),
	// those frames arrive after the server's RST_STREAM
	var triggers []string
	headerPhase := false
	if !wellFormed {
		var noCL []F
		for _, f := range append(append([]F{}, bad.Pseudo...), bad.Fields...) {
			if f.Name == "content-length" && len(strings.TrimLeft(f.Value, "0123456789")) == 0 && f.Value != "" && len(strings.TrimLeft(f.Value, "0")) <= 9 {
				continue // numeric and small: only comparable once the body is complete
			}
			noCL = append(noCL, f)
		}
		ok, _ := wellFormedRequest(noCL, nil, len(bad.Body))
		for _, f := range noCL {
			if f.Name == "content-length" {
				ok = false // non-numeric or huge: refused when the header block is read
			}
		}
		headerPhase = !ok
	}
	blockLen := 0
	for _, f := range append(append([]F{}, bad.Pseudo...), bad.Fields...) {
		blockLen += len(f.Name) + len(f.Value) + 4
	}
	if headerPhase && (bad.EndMode != 0 || blockLen > 15000) { // a block above one frame continues in CONTINUATION
		triggers = append(triggers, "seq.frameAfterStreamErrorOnSameStream")
	}
	replay := map[string]any{"position": nBefore, "rules": rules, "requests": describeReqs(reqs)}
	failed := false
	fail := func(rule, detail string) {
		if !failed {
			r.Fail("C20."+rule, id, detail, triggers, replay)
		}
		failed = true
	}
	res := rt.RunBubble(t, id, 30*time.Second, func() {
		e := rt.NewServerEnv(id, rt.ServerOpts{})
		for _, q := range reqs {
			e.H.SetPlan(q.Tag, q.Resp)
		}
		for i, q := range reqs {
			var out []byte
			if i == nBefore && viaIndex {
				// the offending list goes out twice: first as literals with incremental indexing (which enter the table
				// whether or not the request is refused), then, on the next stream, as indexed references to those entries
				first := *q
				first.Tag, first.Stream = q.Tag+"a", q.Stream
				first.Choices = []hpackref.Choice{{Rep: hpackref.RepIncremental}}
				first.EndMode, first.Body, first.Trailers = 0, nil, nil
				e.P.Write(first.headerBytes(e.P))
				rt.Wait()
				q.Stream = q.Stream + 1000 // a fresh, higher id for the indexed replay
				q.Choices = []hpackref.Choice{{Rep: hpackref.RepIndexed, NameIndex: true}}
			}
			out = append(out, q.headerBytes(e.P)...)
			for _, u := range q.dataUnits() {
				out = append(out, u.frame...)
			}
			if q.EndMode == 3 {
				out = append(out, q.trailerBytes(e.P)...)
			}
			e.P.Write(out)
			if rng.Intn(2) == 0 || i == nBefore {
				rt.Wait()
			}
		}
		rt.Wait()
		fs := e.P.Frames()
		for _, f := range fs {
			if f.Type == wire.TGoAway {
				fail("connection-torn-down", fmt.Sprintf("a request breaking %v (wellformed=%v %s) made the server send %s", rules, wellFormed, wfReason, f))
			}
		}
		recs, _, _, _ := e.H.Snapshot()
		ran := map[string]int{}
		byTag := map[string]rt.ReqRec{}
		for _, rc := range recs {
			key := rc.Tag
			for _, q := range reqs {
				if strings.Contains(rc.Tag, q.Tag) || strings.Contains(rc.URI, "/"+q.Tag) {
					key = q.Tag
				}
			}
			ran[key]++
			byTag[key] = rc
		}
		for i, q := range reqs {
			if i == nBefore && !wellFormed {
				if ran[q.Tag] != 0 {
					fail("malformed-dispatched", fmt.Sprintf("request %s is malformed ("+wfReason+"; mutations %v) but the handler ran (%d times); it saw method=%q uri=%q headers=%.300q", q.Tag, rules, ran[q.Tag], byTag[q.Tag].Method, byTag[q.Tag].URI, byTag[q.Tag].Header))
					continue
				}
				// refused on its own stream: RST_STREAM(PROTOCOL_ERROR) or a 4xx
				sf := rt.FramesFor(fs, q.Stream)
				ok := false
				for _, f := range sf {
					if f.Type == wire.TRstStream && (f.Code == 1 || (hugeCL && f.Code == 11)) {
						ok = true
					}
					if f.Type == wire.THeaders && f.BlockDone && len(f.Fields) > 0 && f.Fields[0].Name == ":status" && strings.HasPrefix(f.Fields[0].Value, "4") {
						ok = true
					}
				}
				if !ok {
					fail("malformed-not-refused", fmt.Sprintf("request %s is malformed ("+wfReason+"; mutations %v); expected RST_STREAM(PROTOCOL_ERROR) or a 4xx on stream %d, got:%s", q.Tag, rules, q.Stream, frameSummary(sf)))
				}
				continue
			}
			if ran[q.Tag] != 1 {
				what := "well-formed"
				if i != nBefore {
					what = fmt.Sprintf("well-formed (neighbour of a request breaking %v)", rules)
				}
				fail("wellformed-not-dispatched", fmt.Sprintf("request %s (stream %d) is %s but the handler ran %d times; frames:%s", q.Tag, q.Stream, what, ran[q.Tag], frameSummary(fs)))
				continue
			}
			if d := checkRequestSeen(q, byTag[q.Tag]); d != "" {
				fail("request-mismatch", fmt.Sprintf("request %s: handler saw %s", q.Tag, d))
			}
			if d := checkResponse(q, rt.FramesFor(fs, q.Stream)); d != "" {
				fail("response-mismatch", fmt.Sprintf("response %s: %s", q.Tag, d))
			}
		}
		for _, f := range fs {
			if f.Type == wire.TGoAway {
				fail("connection-torn-down", fmt.Sprintf("a request breaking %v (wellformed=%v) made the server send %s", rules, wellFormed, f))
			}
		}
		e.Finish()
	})
	c01Outcome(r, id, res, triggers, replay, "C20")
	for _, ru := range rules {
		r.Mark("rules_exercised", ru)
	}
	if wellFormed {
		r.Inc("wellformed_cases", 1)
	} else {
		r.Inc("malformed_cases", 1)
	}
	if viaIndex {
		r.Inc("malformed_replayed_through_table_indexes", 1)
	}
	r.Eval(vf.Hash(rules, nBefore, bad.EndMode, len(bad.Trailers) > 0, wellFormed, viaIndex), true)
	if r.WantSample() {
		r.Sample(map[string]any{"case": id, "rules_broken": rules, "position": nBefore, "pseudo": fmtFields(bad.Pseudo), "fields": fmtFields(bad.Fields), "trailers": fmtFields(bad.Trailers), "body_len": len(bad.Body)})
	}
}
