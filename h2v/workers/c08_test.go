package workers

import (
	"fmt"
	"sort"
	"strings"
	"testing"
	"time"

	"h2v/rt"
	"h2v/vf"
	"h2v/wire"
)

// ---- alphabet --------------------------------------------------------------------------------

type sym struct {
	K    byte   // 'i' SETTINGS carrying INITIAL_WINDOW_SIZE (W: 1 = 66535, 2 = 2^31-1), 'H' headers (Self: with a priority section naming the stream itself), 'C' continuation, 'D' data, 'R' rst, 'W' window update, 'P' priority, 'p' ping, 's' settings, 'w' conn window update, 'u' unknown type
	ID   uint32 // stream id
	ES   bool
	EH   bool
	W    int  // window update flavour: 0 zero, 1 small, 2 exactly to 2^31-1, 3 beyond
	Self bool // priority depends on itself
	XF   bool // the frame carries flag bits that are not defined for its type (0x1 and 0x4 on PRIORITY / WINDOW_UPDATE, 0x8 on PING): they must be ignored (RFC 7540 4.1)
}

func (s sym) String() string {
	switch s.K {
	case 'H':
		if s.Self {
			return fmt.Sprintf("H%d[es=%v,eh=%v,priority-on-itself]", s.ID, s.ES, s.EH)
		}
		return fmt.Sprintf("H%d[es=%v,eh=%v]", s.ID, s.ES, s.EH)
	case 'i':
		return "SETTINGS[initial-window=" + []string{"", "66535", "2^31-1"}[s.W] + "]"
	case 'g':
		return "GOAWAY[NO_ERROR]"
	case 'C':
		return fmt.Sprintf("C%d[eh=%v]", s.ID, s.EH)
	case 'M':
		return fmt.Sprintf("H%d[es,eh,malformed]", s.ID)
	case 'D':
		return fmt.Sprintf("D%d[es=%v]", s.ID, s.ES)
	case 'R':
		return fmt.Sprintf("R%d", s.ID)
	case 'W':
		if s.XF {
			return fmt.Sprintf("W%d[%s,undefined-flags]", s.ID, []string{"0", "n", "toMax", "beyond"}[s.W])
		}
		return fmt.Sprintf("W%d[%s]", s.ID, []string{"0", "n", "toMax", "beyond"}[s.W])
	case 'P':
		if s.Self {
			return fmt.Sprintf("P%d[self]", s.ID)
		}
		if s.XF {
			return fmt.Sprintf("P%d[undefined-flags]", s.ID)
		}
		return fmt.Sprintf("P%d", s.ID)
	case 'p':
		if s.XF {
			return "PING[undefined-flags]"
		}
		return "PING"
	case 's':
		return "SETTINGS"
	case 'w':
		return "WU0"
	case 'u':
		return "UNKNOWN"
	}
	return "?"
}

const (
	idA     = 5
	idB     = 7
	idLow   = 3
	idEven  = 2
	idFresh = 9
)

func c08Alphabet() []sym {
	var a []sym
	for _, id := range []uint32{idA, idB} {
		for _, es := range []bool{false, true} {
			for _, eh := range []bool{false, true} {
				a = append(a, sym{K: 'H', ID: id, ES: es, EH: eh})
			}
		}
		a = append(a, sym{K: 'C', ID: id, EH: false}, sym{K: 'C', ID: id, EH: true})
		a = append(a, sym{K: 'D', ID: id, ES: false}, sym{K: 'D', ID: id, ES: true})
		a = append(a, sym{K: 'R', ID: id})
		for w := 0; w < 4; w++ {
			a = append(a, sym{K: 'W', ID: id, W: w})
		}
		a = append(a, sym{K: 'P', ID: id}, sym{K: 'P', ID: id, Self: true})
	}
	a = append(a,
		sym{K: 'H', ID: idEven, ES: true, EH: true}, sym{K: 'H', ID: idLow, ES: true, EH: true},
		sym{K: 'R', ID: idEven}, sym{K: 'W', ID: idEven, W: 1}, sym{K: 'D', ID: idEven, ES: true}, sym{K: 'P', ID: idEven}, sym{K: 'R', ID: idEven + 4},
		sym{K: 'D', ID: idFresh, ES: true}, sym{K: 'R', ID: idFresh}, sym{K: 'W', ID: idFresh, W: 1}, sym{K: 'P', ID: idFresh}, sym{K: 'P', ID: idLow},
		sym{K: 'p'}, sym{K: 's'}, sym{K: 'w'}, sym{K: 'u'},
		sym{K: 'P', ID: idA, XF: true}, sym{K: 'W', ID: idA, W: 1, XF: true}, sym{K: 'p', XF: true},
		// a complete request whose header list is malformed (a connection-specific field): a stream error that uses the id up
		sym{K: 'M', ID: idA, ES: true, EH: true},
		sym{K: 'R', ID: idLow}, sym{K: 'W', ID: idLow, W: 1}, sym{K: 'D', ID: idLow, ES: true},
		// a HEADERS frame whose priority section names its own stream (5.3.1: a stream error); as a request and, on an open stream, as trailers
		sym{K: 'H', ID: idA, ES: true, EH: true, Self: true},
		// SETTINGS_INITIAL_WINDOW_SIZE raised: the difference is added to every stream window, and a window it takes above 2^31-1 is a
		// connection error FLOW_CONTROL_ERROR (6.9.2)
		sym{K: 'i', W: 1}, sym{K: 'i', W: 2},
		// the client announces that it is going away (graceful, NO_ERROR): requests already made are still to be answered
		// (RFC 7540 6.8: "... while still finishing processing of previously established streams")
		sym{K: 'g'},
	)
	return a
}

// ---- reference model (an executable reading of RFC 7540 5.1, 5.1.1, 6.x) ---------------------------

const (
	stIdle = iota
	stOpen
	stHCR // half-closed (remote)
	stClosed
)
const (
	byNone = iota
	byPeerRST
	byEnd // END_STREAM both ways (response sent)
	byServerRST
)

type mStream struct {
	st          int
	how         int
	headersDone bool
	dispatched  bool
	win         int64 // server's send window on the stream
}

type model struct {
	limit    int   // MaxConcurrentStreams of the server (0: not limited in this run)
	peerGone bool  // the peer has sent GOAWAY: what it opens afterwards may be served or refused
	initWin  int64 // the peer's SETTINGS_INITIAL_WINDOW_SIZE as last sent (0 = never sent: 65535)
	s        map[uint32]*mStream
	highest  uint32
	inBlock  uint32 // stream whose header block is open
	blockES  bool
	parked   bool
	dead     bool
}

// expect is the set of permitted reactions to one frame.
type expect struct {
	None     bool
	Dispatch uint32   // stream that must be dispatched now (0: none)
	S        []uint32 // permitted stream error codes on the frame's stream
	C        []uint32 // permitted connection error codes
	Why      string
	Key      string // (state, frame) label for the evidence
}

const (
	cProtocol    = 1
	cFlowControl = 3
	cStreamClose = 5
)

func (m *model) get(id uint32) *mStream {
	st := m.s[id]
	if st == nil {
		st = &mStream{win: m.initial()}
		m.s[id] = st
	}
	if st.st == stIdle && id < m.highest && id%2 == 1 {
		// never used and below the highest opened id: implicitly closed (RFC 7540 5.1.1)
		st.st, st.how = stClosed, byNone
	}
	return st
}

func (m *model) initial() int64 {
	if m.initWin == 0 {
		return 65535
	}
	return m.initWin
}

func iwsValue(f sym) int64 {
	if f.W == 2 {
		return 1<<31 - 1
	}
	return 66535
}

func stName(st *mStream) string {
	switch st.st {
	case stIdle:
		return "idle"
	case stOpen:
		if !st.headersDone {
			return "open(block)"
		}
		return "open"
	case stHCR:
		if !st.headersDone {
			return "hcr(block)"
		}
		return "hcr"
	}
	return []string{"closed(implicit)", "closed(peerRST)", "closed(end)", "closed(serverRST)"}[st.how]
}

// step returns what the RFC permits as a reaction to f in the current state. It does not change the model.
func (m *model) step(f sym) expect {
	e := m.stepLive(f)
	if m.peerGone && f.K != 'g' {
		// the peer has said it is going away: whether it may still open streams is not settled by the RFC, and a server that
		// has nothing left to answer may close at any moment - every such reaction is accepted on top of the usual ones; what
		// stays demanded is that requests already being served are answered (judged at 'g' itself and at the end)
		owed := false
		for id, st := range m.s {
			// (a stream the peer resets with this very frame is not owed an answer any more)
			owed = owed || (st.dispatched && st.st == stHCR && !(f.K == 'R' && id == f.ID))
		}
		if !owed || f.K == 'H' || f.K == 'M' {
			e.C = []uint32{0, cProtocol, 2, cFlowControl, 4, cStreamClose, 6, 7, 8, 9, 10, 11, 12, 13}
		}
		if st := m.s[f.ID]; f.ID != 0 && (st == nil || st.st == stIdle || (st.st == stClosed && st.how == byNone)) {
			// a stream the server never accepted, on a connection both sides are leaving: refusing whatever arrives on it is
			// as good an answer as the one its frame type would otherwise get
			e.S = append(e.S, 7)
		}
	}
	return e
}

// slotsUsed counts the streams that hold one of the server's MaxConcurrentStreams slots: the ones still being received or
// served, and the ones that are closed for the peer but whose handler is still parked (a cancelled stream keeps its slot
// until its handler returns).
func (m *model) slotsUsed() int {
	n := 0
	for _, st := range m.s {
		if st.st == stOpen || st.st == stHCR || (st.st == stClosed && st.dispatched && m.parked) {
			n++
		}
	}
	return n
}

func (m *model) stepLive(f sym) expect {
	sErr := func(code uint32, why, key string) expect {
		return expect{S: []uint32{code}, C: []uint32{code}, Why: why, Key: key}
	}
	cErr := func(why, key string, codes ...uint32) expect { return expect{C: codes, Why: why, Key: key} }
	none := func(why, key string) expect { return expect{None: true, Why: why, Key: key} }

	// inside a header block only CONTINUATION on the same stream is legal
	if m.inBlock != 0 && !(f.K == 'C' && f.ID == m.inBlock) {
		return cErr("frame other than CONTINUATION inside a header block (6.2, 6.10)", "inblock/"+string(f.K), cProtocol)
	}
	switch f.K {
	case 'p', 's', 'w', 'u':
		return none("connection-level frame", "conn/"+string(f.K))
	case 'g':
		// with requests dispatched and not yet answered the connection has to stay; with nothing owed the server may as well
		// close it (any code, or none)
		owed := false
		for _, st := range m.s {
			owed = owed || (st.dispatched && st.st == stHCR)
		}
		if owed {
			return none("GOAWAY(NO_ERROR) from the peer while requests are being served: they are still to be answered (6.8)", "conn/g[requests-in-progress]")
		}
		return expect{None: true, C: []uint32{0, cProtocol, 2, cFlowControl, 4, cStreamClose, 6, 7, 8, 9, 10, 11, 12, 13}, Why: "GOAWAY(NO_ERROR) from the peer with nothing owed: carrying on and closing are both fine", Key: "conn/g[idle]"}
	case 'i':
		delta := iwsValue(f) - m.initial()
		live, gone := false, false
		for _, st := range m.s {
			if st.win+delta <= 1<<31-1 {
				continue
			}
			switch {
			case st.st == stOpen || st.st == stHCR:
				live = true
			case st.st == stClosed && st.dispatched && m.parked:
				gone = true // closed for the peer, but its handler still runs: the server may or may not still keep a window for it
			}
		}
		key := fmt.Sprintf("conn/i[%s]", []string{"", "+", "max"}[f.W])
		switch {
		case live:
			return cErr("SETTINGS_INITIAL_WINDOW_SIZE takes a stream window above 2^31-1 (6.9.2)", key+"[overflow]", cFlowControl)
		case gone:
			return expect{None: true, C: []uint32{cFlowControl}, Why: "the overflowing window belongs to a stream that is closed but whose handler still runs", Key: key + "[overflow-closed]"}
		}
		return none("SETTINGS_INITIAL_WINDOW_SIZE change within bounds", key)
	case 'C':
		if m.inBlock == 0 {
			return cErr("CONTINUATION without an open header block (6.10)", "noblock/C", cProtocol)
		}
		st := m.get(f.ID)
		if f.EH && m.blockES {
			return expect{Dispatch: f.ID, Why: "CONTINUATION completes a block whose HEADERS carried END_STREAM", Key: stName(st) + "/C[eh]"}
		}
		return none("CONTINUATION continues/completes the block", stName(st)+"/C")
	}
	if f.ID%2 == 0 {
		if f.K == 'P' && !f.Self {
			// 6.3 allows PRIORITY for idle streams; 5.1.1 lets a server regard an even id from a client as a protocol error: both accepted
			return expect{None: true, C: []uint32{cProtocol}, Why: "PRIORITY on an idle server-initiated id", Key: "even/P"}
		}
		// a client cannot open, and the server never pushed, a server-initiated stream: it is idle
		return cErr("frame on an even (server-initiated, never opened) stream id", "even/"+string(f.K), cProtocol)
	}
	st := m.get(f.ID)
	key := stName(st) + "/" + string(f.K)
	if m.limit > 0 && (f.K == 'H' || f.K == 'M') && st.st == stIdle && m.inBlock == 0 && m.slotsUsed() >= m.limit {
		// only HEADERS can be refused: it is the one frame that opens a stream (every other frame on an idle id keeps the
		// reaction its type has, limit or no limit)
		e := expect{S: []uint32{7}, Why: "a new stream beyond SETTINGS_MAX_CONCURRENT_STREAMS is refused (5.1.2)", Key: key + "[at-the-limit]"}
		if f.K == 'M' || f.Self {
			e.S = append(e.S, cProtocol)
			e.C = []uint32{cProtocol}
		}
		return e
	}
	switch f.K {
	case 'P':
		if f.Self {
			e := sErr(cProtocol, "stream depends on itself (5.3.1)", key+"[self]")
			if st.st == stClosed {
				e.None = true // a stream error on a stream that is already closed has nothing to reset
			}
			return e
		}
		return none("PRIORITY is allowed in any state (5.1, 6.3)", key)
	case 'M':
		if st.st == stIdle {
			return expect{S: []uint32{cProtocol}, Why: "malformed request (8.1.2.6): a stream error, and the handler does not run", Key: key}
		}
		if st.st == stOpen {
			return expect{S: []uint32{cProtocol}, Why: "malformed trailers (pseudo-headers and a connection-specific field, 8.1.2.1/8.1.2.2): a stream error", Key: key + "[trailers]"}
		}
		g := f
		g.K = 'H'
		return m.step(g)
	case 'H':
		if f.Self {
			g := f
			g.Self = false
			e := m.step(g)
			if e.None || e.Dispatch != 0 {
				if st.st == stClosed {
					// ignored anyway (frame in flight for a stream the server reset): a stream error has nothing to reset
					e.S, e.Key, e.Why = append(e.S, cProtocol), e.Key+"[self]", e.Why+"; its priority section names the stream itself"
					return e
				}
				return sErr(cProtocol, "HEADERS whose priority section makes the stream depend on itself (5.3.1)", key+"[self]")
			}
			// already an error for its state: that code or PROTOCOL_ERROR
			e.S, e.C, e.Key = append(e.S, cProtocol), append(e.C, cProtocol), e.Key+"[self]"
			return e
		}
		switch st.st {
		case stIdle:
			if f.EH && f.ES {
				return expect{Dispatch: f.ID, Why: "complete request in one frame", Key: key + "[es,eh]"}
			}
			return none("request headers (begin)", key)
		case stOpen:
			if !f.ES {
				return sErr(cProtocol, "second HEADERS without END_STREAM on an open stream (8.1)", key+"[noes]")
			}
			if f.EH {
				return expect{Dispatch: f.ID, Why: "trailers end the request", Key: key + "[trailers]"}
			}
			return none("trailers (begin)", key+"[trailers,cont]")
		case stHCR:
			return sErr(cStreamClose, "HEADERS on a half-closed (remote) stream (5.1)", key)
		default:
			switch st.how {
			case byPeerRST:
				return sErr(cStreamClose, "HEADERS after the peer reset the stream (5.1)", key)
			case byServerRST:
				return expect{None: true, S: []uint32{cStreamClose}, Why: "frame in flight after the server reset the stream", Key: key}
			default:
				e := sErr(cStreamClose, "HEADERS on a closed stream (5.1, 5.1.1)", key)
				e.C = append(e.C, cProtocol)
				return e
			}
		}
	case 'D':
		switch st.st {
		case stIdle:
			return cErr("DATA on an idle stream (5.1)", key, cProtocol)
		case stOpen:
			if f.ES {
				return expect{Dispatch: f.ID, Why: "DATA with END_STREAM ends the request", Key: key + "[es]"}
			}
			return none("request body", key)
		case stHCR:
			return sErr(cStreamClose, "DATA on a half-closed (remote) stream (5.1)", key)
		default:
			if st.how == byServerRST {
				return expect{None: true, S: []uint32{cStreamClose}, Why: "frame in flight after the server reset the stream", Key: key}
			}
			e := sErr(cStreamClose, "DATA on a closed stream (5.1)", key)
			if st.how == byNone {
				e.C = append(e.C, cProtocol) // never used, implicitly closed id: 5.1.1 also reads as PROTOCOL_ERROR
			}
			return e
		}
	case 'R':
		switch st.st {
		case stIdle:
			return cErr("RST_STREAM on an idle stream (6.4)", key, cProtocol)
		case stOpen, stHCR:
			return none("peer cancels the stream", key)
		default:
			if st.how == byPeerRST || st.how == byServerRST {
				return expect{None: true, S: []uint32{cStreamClose}, Why: "RST_STREAM on a reset stream", Key: key}
			}
			if st.how == byNone {
				return expect{None: true, S: []uint32{cStreamClose}, C: []uint32{cStreamClose, cProtocol}, Why: "RST_STREAM on a never used, implicitly closed id", Key: key}
			}
			return none("RST_STREAM shortly after the stream closed must be ignored (5.1)", key)
		}
	case 'W':
		wk := key + "[" + []string{"0", "n", "toMax", "beyond"}[f.W] + "]"
		switch st.st {
		case stIdle:
			return cErr("WINDOW_UPDATE on an idle stream (5.1)", wk, cProtocol)
		case stOpen, stHCR:
			if f.W == 0 || m.incr(f, st) == 0 {
				return sErr(cProtocol, "WINDOW_UPDATE with a zero increment (6.9)", wk)
			}
			if st.win+m.incr(f, st) > 1<<31-1 {
				return sErr(cFlowControl, "stream window above 2^31-1 (6.9.1)", wk)
			}
			return none("stream credit", wk)
		default:
			if f.W == 0 || m.incr(f, st) == 0 {
				return expect{None: true, S: []uint32{cProtocol, cStreamClose}, C: []uint32{cProtocol, cStreamClose}, Why: "zero increment on a closed stream", Key: wk}
			}
			if st.how == byPeerRST || st.how == byServerRST {
				return expect{None: true, S: []uint32{cStreamClose}, Why: "WINDOW_UPDATE on a reset stream", Key: wk}
			}
			if st.how == byNone {
				return expect{None: true, S: []uint32{cStreamClose}, C: []uint32{cStreamClose, cProtocol}, Why: "WINDOW_UPDATE on a never used, implicitly closed id", Key: wk}
			}
			return none("WINDOW_UPDATE shortly after the stream closed must be ignored (5.1)", wk)
		}
	}
	return none("?", key)
}

func (m *model) incr(f sym, st *mStream) int64 {
	switch f.W {
	case 1:
		return 1000
	case 2:
		return min(1<<31-1-st.win, 1<<31-1)
	case 3:
		return min(1<<31-st.win, 1<<31-1)
	}
	return 0
}

// commit updates the model after the observed reaction (obsS: server reset the frame's stream; dispatched etc.).
func (m *model) commit(f sym, e expect, serverReset bool) {
	if f.K == 'p' || f.K == 's' || f.K == 'w' || f.K == 'u' {
		return
	}
	if f.K == 'g' {
		m.peerGone = true
		return
	}
	if f.K == 'i' {
		if e.None && !serverReset {
			delta := iwsValue(f) - m.initial()
			for _, st := range m.s {
				st.win += delta
			}
			m.initWin = iwsValue(f)
		}
		return
	}
	if f.ID%2 == 0 {
		return
	}
	st := m.get(f.ID)
	if f.K == 'M' {
		f.K = 'H'
	}
	if serverReset {
		if f.K == 'H' && st.st == stIdle && f.ID > m.highest {
			m.highest = f.ID // the id has been used, whatever became of the request (5.1.1)
		}
		wasIdle := st.st == stIdle
		st.st, st.how = stClosed, byServerRST
		if m.inBlock == f.ID {
			m.inBlock = 0
		}
		if f.K == 'H' && wasIdle && !f.EH {
			// refused or reset at its first frame: the rest of its header block is still to come (and to be decoded)
			m.inBlock, m.blockES = f.ID, false
		}
		return
	}
	if !e.None && e.Dispatch == 0 {
		return // an error was expected; if it was a connection error the connection is gone
	}
	switch f.K {
	case 'H':
		switch st.st {
		case stIdle:
			st.st = stOpen
			if f.ID > m.highest {
				m.highest = f.ID
			}
			if f.ES {
				st.st = stHCR
			}
			st.headersDone = f.EH
			if !f.EH {
				m.inBlock, m.blockES = f.ID, f.ES
			}
		case stOpen:
			st.st = stHCR
			st.headersDone = f.EH
			if !f.EH {
				m.inBlock, m.blockES = f.ID, true
			}
		default:
			// ignored on a closed stream: the header block is still open at connection level (6.10)
			if !f.EH {
				m.inBlock, m.blockES = f.ID, false
			}
		}
	case 'C':
		if f.EH {
			st.headersDone = true
			m.inBlock = 0
		}
	case 'D':
		if st.st == stOpen && f.ES {
			st.st = stHCR
		}
	case 'R':
		if st.st == stOpen || st.st == stHCR {
			st.st, st.how = stClosed, byPeerRST
		}
	case 'W':
		if st.st == stOpen || st.st == stHCR {
			st.win += m.incr(f, st)
		}
	}
	if e.Dispatch != 0 {
		st.dispatched = true
		if !m.parked {
			// the handler answers at once: END_STREAM both ways
			st.st, st.how = stClosed, byEnd
		}
	}
}

// ---- driver -------------------------------------------------------------------------------------

type c08Gen struct {
	remaining map[uint32][]byte // rest of an open header block per stream
	// wholeInHeaders: a HEADERS frame without END_HEADERS still carries the entire block, so every CONTINUATION is empty
	wholeInHeaders bool
}

func reqBlock(p *rt.Peer, id uint32, tag string) []byte {
	return p.EncodeBlock([]F{{Name: ":method", Value: "POST"}, {Name: ":scheme", Value: "https"}, {Name: ":path", Value: "/" + tag}, {Name: ":authority", Value: "s.example"}, {Name: "x-vtag", Value: tag}}, nil)
}

func (g *c08Gen) bytesFor(p *rt.Peer, m *model, f sym, caseID string, seq int) []byte {
	switch f.K {
	case 'p':
		if f.XF {
			return wire.Frame(nil, wire.TPing, 0x8|0x4, 0, []byte("c08ping!"), -1)
		}
		return rt.Ping(false, "c08ping!")
	case 's':
		return rt.SettingsFrame()
	case 'i':
		return rt.SettingsFrame(wire.Setting{ID: 4, Val: uint32(iwsValue(f))})
	case 'g':
		return rt.GoAway(0, 0, "client going away")
	case 'w':
		return rt.WindowUpdate(0, 1000)
	case 'u':
		return wire.Frame(nil, 0x42, 0x5, 0, []byte("ext"), -1)
	case 'R':
		return rt.RstStream(f.ID, 8)
	case 'P':
		dep := uint32(1)
		if f.Self {
			dep = f.ID
		}
		if f.XF {
			b := rt.Priority(f.ID, dep, false, 10)
			b[4] |= 0x1 | 0x4 // END_STREAM / END_HEADERS bit positions: meaningless on PRIORITY
			return b
		}
		return rt.Priority(f.ID, dep, false, 10)
	case 'W':
		var inc int64
		st := m.s[f.ID]
		win := m.initial()
		if st != nil {
			win = st.win
		}
		switch f.W {
		case 0:
			inc = 0
		case 1:
			inc = 1000
		case 2:
			inc = 1<<31 - 1 - win
		case 3:
			inc = 1<<31 - win
		}
		if inc > 1<<31-1 {
			inc = 1<<31 - 1
		}
		if f.XF {
			b := rt.WindowUpdate(f.ID, uint32(inc))
			b[4] |= 0x1 | 0x4
			return b
		}
		return rt.WindowUpdate(f.ID, uint32(inc))
	case 'D':
		var fl byte
		if f.ES {
			fl = wire.FEndStream
		}
		return wire.Frame(nil, wire.TData, fl, f.ID, []byte("body-"+fmt.Sprint(seq)), -1)
	case 'M':
		tag := fmt.Sprintf("%s.%d", caseID, f.ID)
		blk := p.EncodeBlock([]F{{Name: ":method", Value: "POST"}, {Name: ":scheme", Value: "https"}, {Name: ":path", Value: "/" + tag}, {Name: ":authority", Value: "s.example"}, {Name: "x-vtag", Value: tag}, {Name: "connection", Value: "close"}}, nil)
		return wire.Frame(nil, wire.THeaders, wire.FEndStream|wire.FEndHeaders, f.ID, blk, -1)
	case 'H':
		st := m.s[f.ID]
		var blk []byte
		if st != nil && st.st == stOpen && st.headersDone {
			blk = p.EncodeBlock([]F{{Name: "x-trailer", Value: fmt.Sprint(seq)}}, nil)
		} else {
			blk = reqBlock(p, f.ID, fmt.Sprintf("%s.%d", caseID, f.ID))
		}
		var fl byte
		if f.ES {
			fl |= wire.FEndStream
		}
		frag := blk
		if f.EH {
			fl |= wire.FEndHeaders
		} else {
			cut := len(blk) / 2
			if g.wholeInHeaders {
				cut = len(blk)
			}
			frag = blk[:cut]
			g.remaining[f.ID] = blk[cut:]
		}
		if f.Self {
			fl |= wire.FPriority
			frag = append(wire.PriorityFields(f.ID, false, 10), frag...)
		}
		return wire.Frame(nil, wire.THeaders, fl, f.ID, frag, -1)
	case 'C':
		rest := g.remaining[f.ID]
		var fl byte
		frag := rest
		if f.EH {
			fl = wire.FEndHeaders
			g.remaining[f.ID] = nil
		} else {
			n := min(2, len(rest))
			frag = rest[:n]
			g.remaining[f.ID] = rest[n:]
		}
		return wire.Frame(nil, wire.TContinuation, fl, f.ID, frag, -1)
	}
	return nil
}

type c08Obs struct {
	resp     map[uint32]bool
	rst      map[uint32]uint32
	goaway   int64
	closed   bool
	dispatch map[uint32]int
}

func errName(c uint32) string {
	n := []string{"NO_ERROR", "PROTOCOL_ERROR", "INTERNAL_ERROR", "FLOW_CONTROL_ERROR", "SETTINGS_TIMEOUT", "STREAM_CLOSED", "FRAME_SIZE_ERROR", "REFUSED_STREAM", "CANCEL", "COMPRESSION_ERROR", "CONNECT_ERROR", "ENHANCE_YOUR_CALM", "INADEQUATE_SECURITY", "HTTP_1_1_REQUIRED"}
	if int(c) < len(n) {
		return n[c]
	}
	return fmt.Sprint(c)
}

func in(codes []uint32, c uint32) bool {
	for _, x := range codes {
		if x == c {
			return true
		}
	}
	return false
}

// c08Run plays one sequence on a fresh connection and judges every step.
func c08Run(r *vf.Run, t *testing.T, id string, seq []sym, parked bool, limit ...int) {
	lim := 0
	if len(limit) > 0 {
		lim = limit[0]
	}
	var names []string
	for _, f := range seq {
		names = append(names, f.String())
	}
	replay := map[string]any{"sequence": names, "handlers_parked": parked, "max_concurrent_streams": lim}
	failed := false
	var triggers []string
	fail := func(rule, detail string) {
		if !failed {
			r.Fail("C08."+rule, id, detail, triggers, replay)
		}
		failed = true
	}
	offended := map[uint32]bool{} // streams on which an earlier frame was a stream-scoped offence (per the model, input only)
	res := rt.RunBubble(t, id, 30*time.Second, func() {
		e := rt.NewServerEnv(id, rt.ServerOpts{MaxConcurrentStreams: lim})
		m := &model{s: map[uint32]*mStream{}, parked: parked, limit: lim}
		g := &c08Gen{remaining: map[uint32][]byte{}, wholeInHeaders: vf.Hash(id)%2 == 0}
		var gate chan struct{}
		if parked {
			gate = e.H.NewGate()
			e.H.SetDefault(&rt.RespPlan{Status: 200, Body: []byte("ok"), Gate: gate})
		}
		seenFrames := e.P.NFrames()
		seenRecs := 0
		resetByPeer := map[uint32]int{} // stream -> frame index at which the peer reset it
		for i, f := range seq {
			exp := m.step(f)
			triggers = nil
			if offended[f.ID] && (f.K == 'H' || f.K == 'C' || f.K == 'D') {
				triggers = []string{"seq.frameAfterStreamErrorOnSameStream"}
			}
			if len(exp.S) > 0 && !exp.None && exp.Dispatch == 0 {
				offended[f.ID] = true
			}
			b := g.bytesFor(e.P, m, f, id, i)
			e.P.Write(b)
			rt.Wait()
			fs := e.P.Frames()
			recs, _, _, _ := e.H.Snapshot()
			obs := c08Obs{resp: map[uint32]bool{}, rst: map[uint32]uint32{}, goaway: -1, dispatch: map[uint32]int{}}
			for _, x := range fs[seenFrames:] {
				switch x.Type {
				case wire.THeaders, wire.TData, wire.TContinuation:
					obs.resp[x.Stream] = true
				case wire.TRstStream:
					obs.rst[x.Stream] = x.Code
				case wire.TGoAway:
					obs.goaway = int64(x.Code)
				}
			}
			for _, rc := range recs[seenRecs:] {
				var sid uint32
				fmt.Sscanf(rc.Tag[strings.LastIndex(rc.Tag, ".")+1:], "%d", &sid)
				obs.dispatch[sid]++
			}
			seenFrames, seenRecs = len(fs), len(recs)
			if done, _ := e.P.ReadState(); done {
				obs.closed = true
			}
			if e.Served() {
				obs.closed = true
			}
			r.Mark("state_frame_pairs", exp.Key)
			where := fmt.Sprintf("step %d (%s; %s): %s", i, f, exp.Key, exp.Why)
			// --- judge
			if f.K == 'g' && obs.goaway == 0 && !obs.closed {
				// the server says goodbye too (GOAWAY NO_ERROR) and goes on serving what it owes: not an error reaction
				obs.goaway = -1
				r.Mark("reactions", exp.Key+" -> GOAWAY(NO_ERROR) in return, connection kept")
			}
			connErr := obs.goaway >= 0 || obs.closed
			switch {
			case connErr:
				r.Mark("reactions", exp.Key+" -> C")
				if len(exp.C) == 0 {
					fail("unexpected-connection-error", fmt.Sprintf("%s. Permitted: %s. Observed: GOAWAY code %d closed=%v", where, permitted(exp), obs.goaway, obs.closed))
				} else if obs.goaway >= 0 && !in(exp.C, uint32(obs.goaway)) {
					fail("wrong-error-code", fmt.Sprintf("%s. Permitted connection error codes %v. Observed GOAWAY(%s)", where, codeNames(exp.C), errName(uint32(obs.goaway))))
				}
				for sid, n := range obs.dispatch {
					if n > 0 && !(exp.Dispatch == sid) {
						fail("dispatch-with-connection-error", fmt.Sprintf("%s: handler ran for stream %d in the step that ended the connection", where, sid))
					}
				}
				m.dead = true
			case len(obs.rst) > 0:
				r.Mark("reactions", exp.Key+" -> S")
				code, onThis := obs.rst[f.ID]
				if len(obs.rst) > 1 || !onThis {
					fail("reset-of-another-stream", fmt.Sprintf("%s. Observed RST_STREAM on %v", where, obs.rst))
				} else if !in(exp.S, code) {
					fail("unexpected-stream-error", fmt.Sprintf("%s. Permitted: %s. Observed RST_STREAM(%s)", where, permitted(exp), errName(code)))
				}
				if len(obs.dispatch) > 0 {
					fail("dispatch-with-stream-error", fmt.Sprintf("%s: handler ran for %v in the step that reset the stream", where, obs.dispatch))
				}
				m.commit(f, exp, true)
			default:
				if exp.Dispatch != 0 {
					r.Mark("reactions", exp.Key+" -> dispatch")
					if obs.dispatch[exp.Dispatch] != 1 || len(obs.dispatch) != 1 {
						fail("not-dispatched", fmt.Sprintf("%s. The request on stream %d is complete and legal but the handler ran %v", where, exp.Dispatch, obs.dispatch))
					} else if !parked && !obs.resp[exp.Dispatch] {
						fail("no-response", fmt.Sprintf("%s. Handler ran but no response frame arrived on stream %d", where, exp.Dispatch))
					}
				} else {
					r.Mark("reactions", exp.Key+" -> none")
					if !exp.None {
						fail("error-not-raised", fmt.Sprintf("%s. Permitted: %s. Observed: no reaction at all", where, permitted(exp)))
					}
					if len(obs.dispatch) > 0 {
						fail("illegal-dispatch", fmt.Sprintf("%s. Handler ran for %v although no request was completed by this frame", where, obs.dispatch))
					}
				}
				for sid := range obs.resp {
					if sid != exp.Dispatch {
						fail("unexpected-response", fmt.Sprintf("%s. Response frames on stream %d", where, sid))
					}
				}
				m.commit(f, exp, false)
				if f.K == 'R' {
					resetByPeer[f.ID] = len(fs)
				}
			}
			if m.dead || failed {
				break
			}
		}
		if parked && !failed {
			rt.Open(gate)
			rt.Wait()
			fs := e.P.Frames()
			for sid, st := range m.s {
				if !st.dispatched {
					continue
				}
				var got []rt.Frame
				for _, x := range fs[seenFrames:] {
					if x.Stream == sid && (x.Type == wire.THeaders || x.Type == wire.TData) {
						got = append(got, x)
					}
				}
				answered := len(got) > 0
				switch {
				case st.st == stClosed && st.how == byPeerRST:
					if answered {
						fail("answered-after-peer-reset", fmt.Sprintf("stream %d was reset by the peer while its handler ran, yet %d response frames were sent afterwards", sid, len(got)))
					}
				case st.st == stClosed && st.how == byServerRST:
				default:
					if !m.dead && (!answered || !got[len(got)-1].EndStream) {
						fail("no-response", fmt.Sprintf("stream %d was dispatched but after its handler returned %d response frames arrived (END_STREAM missing)", sid, len(got)))
					}
				}
			}
		}
		if !failed {
			// a stream the server has reset is closed for the server too: nothing but PRIORITY may follow its own RST_STREAM
			// (RFC 7540 5.1, 6.4)
			resetAt := map[uint32]int{}
			for i, x := range e.P.Frames() {
				switch x.Type {
				case wire.TRstStream:
					if _, seen := resetAt[x.Stream]; !seen {
						resetAt[x.Stream] = i
					}
				case wire.THeaders, wire.TData, wire.TContinuation:
					if at, ok := resetAt[x.Stream]; ok {
						fail("frames-after-own-reset", fmt.Sprintf("the server reset stream %d (frame #%d) and then sent %s on it (frame #%d)", x.Stream, at, x, i))
					}
				}
			}
		}
		e.Finish()
	})
	c01Outcome(r, id, res, nil, replay, "C08")
}

func codeNames(cs []uint32) []string {
	var out []string
	for _, c := range cs {
		out = append(out, errName(c))
	}
	return out
}

func permitted(e expect) string {
	var p []string
	if e.None {
		p = append(p, "no reaction")
	}
	if e.Dispatch != 0 {
		p = append(p, fmt.Sprintf("dispatch of stream %d", e.Dispatch))
	}
	for _, c := range e.S {
		p = append(p, "RST_STREAM("+errName(c)+")")
	}
	for _, c := range e.C {
		p = append(p, "GOAWAY("+errName(c)+")")
	}
	sort.Strings(p)
	return strings.Join(p, " | ")
}

func TestC08(t *testing.T) {
	r := vf.Begin(t, "C08")
	defer r.End()
	defer perturbReport(r)
	alpha := c08Alphabet()
	r.Describe(fmt.Sprintf("bounded-exhaustive: every sequence of length<=2 (quick) / <=3 (thorough) over an alphabet of %d symbolic frames (HEADERS +/-END_STREAM +/-END_HEADERS, CONTINUATION +/-END_HEADERS, DATA +/-END_STREAM, RST_STREAM, WINDOW_UPDATE {0,n,to 2^31-1,beyond}, PRIORITY {other,self} on stream ids A=5 and B=7; HEADERS on an even id and on a lower id; DATA/RST_STREAM/WINDOW_UPDATE/PRIORITY on a never-opened id; PING, SETTINGS, connection WINDOW_UPDATE, unknown frame type), ", len(alpha))+
		"each played on a fresh server connection in a synctest bubble with a quiescence barrier after every frame, once with handlers answering at once and once with handlers parked (half-closed(remote) persists), plus PRNG sequences of length 3..8. "+
		"Oracle: an executable reading of RFC 7540 5.1/5.1.1/6.x mapping (stream state, frame) to the set of permitted reactions {none, dispatch, RST_STREAM(code), GOAWAY(code)} - a stream error may always be answered by the connection error of the same code - and following the branch the server took. "+
		"Distinct = distinct sequences; all are non-trivial.",
		"quiescence (synctest.Wait) separates 'ignored' from 'not yet processed'", "the reference model is the harness author's reading of RFC 7540; where the RFC leaves a choice every option is accepted")
	ci := 0
	run := func(seq []sym) {
		for _, parked := range []bool{false, true} {
			ci++
			id := fmt.Sprintf("q%d", ci)
			if !r.Want(ci, id) {
				continue
			}
			var names []string
			for _, f := range seq {
				names = append(names, f.String())
			}
			r.Progress(id, strings.Join(names, " "))
			c08Run(r, t, id, seq, parked)
			r.Eval(vf.Hash(names, parked), true)
			if r.WantSample() && len(seq) == 3 {
				r.Sample(map[string]any{"case": id, "sequence": names, "handlers_parked": parked})
			}
		}
	}
	for _, a := range alpha {
		run([]sym{a})
		for _, b := range alpha {
			run([]sym{a, b})
			if r.Thorough() {
				for _, c := range alpha {
					run([]sym{a, b, c})
				}
			}
		}
	}
	if r.Thorough() {
		r.Exhaustive(fmt.Sprintf("all frame sequences of length<=3 over the %d-symbol alphabet, x {handlers immediate, parked}", len(alpha)))
	} else {
		r.Exhaustive(fmt.Sprintf("all frame sequences of length<=2 over the %d-symbol alphabet, x {handlers immediate, parked}", len(alpha)))
	}
	// directed sequences of length 3 and 4 (both tiers): the symbols whose interesting reactions need a prepared state —
	// a stream window raised by WINDOW_UPDATE and then by SETTINGS_INITIAL_WINDOW_SIZE, in either order, on a stream that is
	// open, half-closed (remote) or already closed
	opening := [][]sym{
		{{K: 'H', ID: idA, ES: true, EH: true}},
		{{K: 'H', ID: idA, ES: false, EH: true}},
		{{K: 'H', ID: idA, ES: true, EH: true}, {K: 'H', ID: idB, ES: false, EH: true}},
		{{K: 'H', ID: idA, ES: false, EH: true}, {K: 'R', ID: idA}},
	}
	iws := []sym{{K: 'i', W: 1}, {K: 'i', W: 2}}
	for _, op := range opening {
		for _, id := range []uint32{idA, idB} {
			for w := 1; w <= 2; w++ {
				for _, i1 := range iws {
					run(append(append([]sym{}, op...), sym{K: 'W', ID: id, W: w}, i1))
					run(append(append([]sym{}, op...), i1, sym{K: 'W', ID: id, W: w}))
					for _, i2 := range iws {
						run(append(append([]sym{}, op...), i1, sym{K: 'W', ID: id, W: w}, i2))
					}
				}
			}
		}
	}
	// at the concurrency limit (MaxConcurrentStreams 1, the one slot taken by a parked request): every symbol, and in the
	// thorough tier every pair of symbols, after it
	{
		first := sym{K: 'H', ID: idA, ES: true, EH: true}
		atLimit := func(seq []sym) {
			ci++
			id := fmt.Sprintf("q%d", ci)
			if !r.Want(ci, id) {
				return
			}
			var names []string
			for _, f := range seq {
				names = append(names, f.String())
			}
			r.Progress(id, strings.Join(names, " "))
			c08Run(r, t, id, seq, true, 1)
			r.Eval(vf.Hash(names, "limit1"), true)
		}
		for _, a := range alpha {
			atLimit([]sym{first, a})
			if r.Thorough() {
				for _, b := range alpha {
					atLimit([]sym{first, a, b})
				}
			}
		}
	}
	// PRNG longer sequences, biased towards legal prefixes
	n := r.Pick(6000, 400000)
	for i := 0; i < n; i++ {
		id := fmt.Sprintf("r%d", i)
		if !r.Want(i, id) {
			continue
		}
		rng := r.Rand(id)
		L := 3 + rng.Intn(6)
		seq := make([]sym, L)
		for j := range seq {
			seq[j] = alpha[rng.Intn(len(alpha))]
		}
		// bias: start with a legal opening half the time
		if rng.Intn(2) == 0 {
			seq[0] = sym{K: 'H', ID: idA, ES: rng.Intn(2) == 0, EH: true}
		}
		var names []string
		for _, f := range seq {
			names = append(names, f.String())
		}
		r.Progress(id, strings.Join(names, " "))
		parked := rng.Intn(2) == 0
		lim := 0
		if rng.Intn(3) == 0 {
			// the server allows one or two concurrent streams and the handlers are parked: whatever is opened stays open
			parked, lim = true, 1+rng.Intn(2)
		}
		c08Run(r, t, id, seq, parked, lim)
		r.Eval(vf.Hash(names, parked, lim), true)
		if r.WantSample() {
			r.Sample(map[string]any{"case": id, "sequence": names, "handlers_parked": parked, "max_concurrent_streams": lim})
		}
	}
}
