package workers

import (
	"h2v/vf"
	"fmt"
	"math/rand"
	"strings"

	http2 "github.com/dgrr/http2"
	"golang.org/x/net/http2/hpack"

	"h2v/hpackref"
)

type F = hpackref.Field

func fieldsEq(a, b []F, withSens bool) bool {
	if len(a) != len(b) {
		return false
	}
	for i := range a {
		if a[i].Name != b[i].Name || a[i].Value != b[i].Value {
			return false
		}
		if withSens && a[i].Sensitive != b[i].Sensitive {
			return false
		}
	}
	return true
}

func fmtFields(fs []F) string {
	var sb strings.Builder
	for i, f := range fs {
		if i > 0 {
			sb.WriteString(", ")
		}
		if i >= 12 {
			fmt.Fprintf(&sb, "… (%d fields)", len(fs))
			break
		}
		n, v := f.Name, f.Value
		if len(v) > 40 {
			v = fmt.Sprintf("%s…(%d)", v[:40], len(v))
		}
		if len(n) > 40 {
			n = fmt.Sprintf("%s…(%d)", n[:40], len(n))
		}
		fmt.Fprintf(&sb, "%q=%q", n, v)
		if f.Sensitive {
			sb.WriteString("[S]")
		}
	}
	return sb.String()
}

func xnetFields(fs []hpack.HeaderField) []F {
	out := make([]F, len(fs))
	for i, f := range fs {
		out[i] = F{Name: f.Name, Value: f.Value, Sensitive: f.Sensitive}
	}
	return out
}

// sutDecodeBlock decodes a complete header block the way the server's
// handleHeaderFrame does: blockStart fixed for the frame, fieldsProcessed counted.
// (see reuse below for how the HeaderField is handled between steps)
func sutDecodeBlock(hp *http2.HPACK, block []byte) (fields []F, steps int, noProgress bool, err error) {
	hf := http2.AcquireHeaderField()
	defer http2.ReleaseHeaderField(hf)
	b := block
	n := 0
	// every other block is decoded into one HeaderField that is not reset between fields, which is how the library's own
	// callers use the decoder (one pooled HeaderField per header block): whatever a field leaves behind in it must not
	// show up in the next one
	reuse := vf.Hash(block)%2 == 0
	for len(b) > 0 {
		if !reuse {
			hf.Reset()
		}
		pb := b
		b, err = hp.VerifNextField(hf, true, n, b)
		if err != nil && len(b) == 0 && err.Error() == "no header field decoded" {
			// the decoder's way of saying that only table size updates were left (they have been applied)
			return fields, n, false, nil
		}
		if err != nil {
			return fields, n, false, err
		}
		if len(b) >= len(pb) {
			return fields, n, true, nil
		}
		fields = append(fields, F{Name: string(hf.KeyBytes()), Value: string(hf.ValueBytes()), Sensitive: hf.IsSensible()})
		n++
	}
	return fields, n, false, nil
}

func sutTable(hp *http2.HPACK) []F {
	t := hp.VerifDynamicTable()
	out := make([]F, len(t))
	for i, e := range t {
		out[i] = F{Name: e[0], Value: e[1]}
	}
	return out
}

// endsWithSizeUpdate reports whether the last representation of a (valid) block is a size update.
func onlySizeUpdatesAtEnd(block []byte, nfields int) bool {
	// walk with the reference reader
	b := block
	seen := 0
	for len(b) > 0 {
		c := b[0]
		if c&0xe0 == 0x20 && c&0x80 == 0 && c&0x40 == 0 {
			_, rest, err := hpackref.ReadInt(b, 5)
			if err != nil {
				return false
			}
			b = rest
			if len(b) == 0 {
				return true
			}
			continue
		}
		seen++
		break
	}
	_ = seen
	return false
}

var nameVocab = []string{
	":authority", ":method", ":path", ":scheme", ":status", "accept", "accept-encoding", "cookie", "content-length",
	"content-type", "user-agent", "x-custom", "x-a", "x_b", "te", "authorization", "set-cookie", "www-authenticate", "via",
	"x-very-long-header-name-that-goes-on-and-on-and-on-0123456789", "", "a", "zz",
}

func randBytes(rng *rand.Rand, n int, mode int) string {
	b := make([]byte, n)
	switch mode {
	case 0:
		rng.Read(b)
	case 1:
		for i := range b {
			b[i] = byte(32 + rng.Intn(95))
		}
	case 2:
		for i := range b {
			b[i] = "abcdefghijklmnopqrstuvwxyz0123456789-_."[rng.Intn(39)]
		}
	default:
		for i := range b {
			b[i] = '0'
		}
	}
	return string(b)
}

func randLen(rng *rand.Rand) int {
	switch rng.Intn(12) {
	case 0:
		return 0
	case 1:
		return []int{63, 64, 65, 126, 127, 128, 129, 254, 255, 256}[rng.Intn(10)]
	case 2:
		return rng.Intn(9000)
	case 3:
		return 1
	default:
		return 1 + rng.Intn(40)
	}
}

func randField(rng *rand.Rand, pool *[]F) F {
	// reuse an earlier field to force index hits
	if len(*pool) > 0 && rng.Intn(3) == 0 {
		f := (*pool)[rng.Intn(len(*pool))]
		if rng.Intn(3) == 0 {
			f.Value = randBytes(rng, randLen(rng), rng.Intn(4))
		}
		return f
	}
	var f F
	if rng.Intn(4) == 0 {
		f.Name = randBytes(rng, rng.Intn(30), rng.Intn(3))
	} else {
		f.Name = nameVocab[rng.Intn(len(nameVocab))]
	}
	if rng.Intn(8) == 0 {
		// a static-table full match
		s := hpackref.Static[1+rng.Intn(61)]
		f = F{Name: s.Name, Value: s.Value}
	} else {
		f.Value = randBytes(rng, randLen(rng), rng.Intn(4))
	}
	*pool = append(*pool, f)
	return f
}

func randChoice(rng *rand.Rand) hpackref.Choice {
	return hpackref.Choice{Rep: rng.Intn(4), NameIndex: rng.Intn(3) != 0, HuffName: rng.Intn(2) == 0, HuffValue: rng.Intn(2) == 0, Pick: rng.Intn(8)}
}
