package workers

import (
	"fmt"
	"math/rand"
	"strings"
	"testing"
	"time"

	"h2v/rt"
	"h2v/vf"
	"h2v/wire"
)

type c10Offence struct {
	Name  string
	Codes []uint32 // codes RFC 7540 allows for it
	// Build returns the offending bytes; next is the next unused odd stream id, open an open stream id (0 if none)
	Build func(rng *rand.Rand, p *rt.Peer, next uint32, open uint32) []byte
}

const (
	eProtocol = 1
	eFlow     = 3
	eClosed   = 5
	eSize     = 6
	eCompress = 9
)

func c10Catalogue() []c10Offence {
	raw := func(typ, flags byte, stream uint32, payload []byte) []byte {
		return wire.Frame(nil, typ, flags, stream, payload, -1)
	}
	return []c10Offence{
		{"frame-above-max-frame-size", []uint32{eSize}, func(rng *rand.Rand, p *rt.Peer, next, open uint32) []byte {
			return raw(wire.TData, 0, max(open, 1), make([]byte, 16385+rng.Intn(100)))
		}},
		{"ping-wrong-length", []uint32{eSize}, func(rng *rand.Rand, p *rt.Peer, next, open uint32) []byte {
			return raw(wire.TPing, 0, 0, make([]byte, []int{0, 7, 9, 16}[rng.Intn(4)]))
		}},
		{"rst-stream-wrong-length", []uint32{eSize}, func(rng *rand.Rand, p *rt.Peer, next, open uint32) []byte {
			return raw(wire.TRstStream, 0, max(open, 1), make([]byte, []int{0, 3, 5, 8}[rng.Intn(4)]))
		}},
		{"window-update-wrong-length", []uint32{eSize}, func(rng *rand.Rand, p *rt.Peer, next, open uint32) []byte {
			return raw(wire.TWindowUpdate, 0, []uint32{0, max(open, 1)}[rng.Intn(2)], make([]byte, []int{0, 3, 5}[rng.Intn(3)]))
		}},
		{"priority-wrong-length", []uint32{eSize}, func(rng *rand.Rand, p *rt.Peer, next, open uint32) []byte {
			return raw(wire.TPriority, 0, max(open, 1), make([]byte, []int{0, 4, 6}[rng.Intn(3)]))
		}},
		{"settings-length-not-multiple-of-6", []uint32{eSize}, func(rng *rand.Rand, p *rt.Peer, next, open uint32) []byte {
			return raw(wire.TSettings, 0, 0, make([]byte, []int{1, 5, 7, 13}[rng.Intn(4)]))
		}},
		{"settings-ack-with-payload", []uint32{eSize}, func(rng *rand.Rand, p *rt.Peer, next, open uint32) []byte {
			return raw(wire.TSettings, wire.FAck, 0, wire.SettingsPayload([]wire.Setting{{ID: 3, Val: 1}}))
		}},
		{"continuation-out-of-place", []uint32{eProtocol}, func(rng *rand.Rand, p *rt.Peer, next, open uint32) []byte {
			return raw(wire.TContinuation, wire.FEndHeaders, max(open, 1), []byte{0x82})
		}},
		{"frame-inside-header-block", []uint32{eProtocol}, func(rng *rand.Rand, p *rt.Peer, next, open uint32) []byte {
			blk := reqBlock(p, next, "inblock")
			b := raw(wire.THeaders, wire.FEndStream, next, blk[:len(blk)/2])
			switch rng.Intn(6) {
			case 0:
				b = append(b, rt.Ping(false, "inblock!")...)
			case 1:
				b = append(b, raw(wire.TData, 0, max(open, next), []byte("x"))...)
			case 2:
				b = append(b, raw(0x42, 0, 0, []byte("ext"))...)
			case 3:
				b = append(b, rt.SettingsFrame()...)
			case 4:
				b = append(b, rt.WindowUpdate(0, 100)...)
			default:
				b = append(b, rt.Priority(next+2, 0, false, 7)...)
			}
			if rng.Intn(2) == 0 {
				// and the block is finished as if nothing had happened: an endpoint that let the intruder through now has a
				// complete request in its hands
				b = append(b, raw(wire.TContinuation, wire.FEndHeaders, next, blk[len(blk)/2:])...)
			}
			return b
		}},
		{"data-on-stream-0", []uint32{eProtocol}, func(rng *rand.Rand, p *rt.Peer, next, open uint32) []byte {
			return raw(wire.TData, 0, 0, []byte("x"))
		}},
		{"headers-on-stream-0", []uint32{eProtocol}, func(rng *rand.Rand, p *rt.Peer, next, open uint32) []byte {
			return raw(wire.THeaders, wire.FEndHeaders|wire.FEndStream, 0, p.EncodeBlock([]F{{Name: ":method", Value: "GET"}}, nil))
		}},
		{"rst-stream-on-stream-0", []uint32{eProtocol}, func(rng *rand.Rand, p *rt.Peer, next, open uint32) []byte { return rt.RstStream(0, 8) }},
		{"priority-on-stream-0", []uint32{eProtocol}, func(rng *rand.Rand, p *rt.Peer, next, open uint32) []byte { return rt.Priority(0, 1, false, 1) }},
		{"settings-on-a-stream", []uint32{eProtocol}, func(rng *rand.Rand, p *rt.Peer, next, open uint32) []byte {
			return raw(wire.TSettings, 0, max(open, 1), nil)
		}},
		{"ping-on-a-stream", []uint32{eProtocol}, func(rng *rand.Rand, p *rt.Peer, next, open uint32) []byte {
			return raw(wire.TPing, 0, max(open, 1), make([]byte, 8))
		}},
		{"goaway-on-a-stream", []uint32{eProtocol}, func(rng *rand.Rand, p *rt.Peer, next, open uint32) []byte {
			return raw(wire.TGoAway, 0, max(open, 1), wire.GoAwayPayload(0, 0, nil))
		}},
		{"push-promise-from-client", []uint32{eProtocol}, func(rng *rand.Rand, p *rt.Peer, next, open uint32) []byte {
			return raw(wire.TPushPromise, wire.FEndHeaders, max(open, 1), append(wire.U32(2), 0x82))
		}},
		{"even-stream-id", []uint32{eProtocol}, func(rng *rand.Rand, p *rt.Peer, next, open uint32) []byte {
			return rt.Concat(rt.HeaderFrames(next+1, reqBlock(p, next+1, "even"), nil, -1, nil, true))
		}},
		{"lower-new-stream-id", []uint32{eProtocol, eClosed}, func(rng *rand.Rand, p *rt.Peer, next, open uint32) []byte {
			// open next+2 first (legal), then next (lower, never used)
			a := rt.Concat(rt.HeaderFrames(next+2, reqBlock(p, next+2, "higher"), nil, -1, nil, true))
			return append(a, rt.Concat(rt.HeaderFrames(next, reqBlock(p, next, "lower"), nil, -1, nil, true))...)
		}},
		{"padding-longer-than-frame", []uint32{eProtocol}, func(rng *rand.Rand, p *rt.Peer, next, open uint32) []byte {
			if open != 0 && rng.Intn(2) == 0 {
				return raw(wire.TData, wire.FPadded, open, []byte{10, 1, 2, 3})
			}
			return raw(wire.THeaders, wire.FPadded|wire.FEndHeaders|wire.FEndStream, next, []byte{200, 0x82, 0x84})
		}},
		{"enable-push-invalid", []uint32{eProtocol}, func(rng *rand.Rand, p *rt.Peer, next, open uint32) []byte {
			return rt.SettingsFrame(wire.Setting{ID: 2, Val: uint32(2 + rng.Intn(1000))})
		}},
		{"max-frame-size-out-of-range", []uint32{eProtocol}, func(rng *rand.Rand, p *rt.Peer, next, open uint32) []byte {
			return rt.SettingsFrame(wire.Setting{ID: 5, Val: []uint32{0, 16383, 1 << 24, 0xffffffff}[rng.Intn(4)]})
		}},
		{"connection-window-update-zero", []uint32{eProtocol}, func(rng *rand.Rand, p *rt.Peer, next, open uint32) []byte { return rt.WindowUpdate(0, 0) }},
		{"initial-window-size-too-large", []uint32{eFlow}, func(rng *rand.Rand, p *rt.Peer, next, open uint32) []byte {
			return rt.SettingsFrame(wire.Setting{ID: 4, Val: 1<<31 + uint32(rng.Intn(1000))})
		}},
		{"connection-window-overflow", []uint32{eFlow}, func(rng *rand.Rand, p *rt.Peer, next, open uint32) []byte {
			return append(rt.WindowUpdate(0, 1<<31-1), rt.WindowUpdate(0, 1<<31-1)...)
		}},
		{"rst-stream-on-idle-stream", []uint32{eProtocol}, func(rng *rand.Rand, p *rt.Peer, next, open uint32) []byte { return rt.RstStream(next, 8) }},
		{"window-update-on-idle-stream", []uint32{eProtocol}, func(rng *rand.Rand, p *rt.Peer, next, open uint32) []byte { return rt.WindowUpdate(next, 10) }},
		{"data-on-idle-stream", []uint32{eProtocol}, func(rng *rand.Rand, p *rt.Peer, next, open uint32) []byte {
			return raw(wire.TData, wire.FEndStream, next, []byte("idle"))
		}},
		{"priority-depends-on-itself", []uint32{eProtocol}, func(rng *rand.Rand, p *rt.Peer, next, open uint32) []byte {
			sid := next
			if open != 0 && rng.Intn(2) == 0 {
				sid = open
			}
			return rt.Priority(sid, sid, false, 3)
		}},
		{"data-on-closed-stream", []uint32{eClosed, eProtocol}, func(rng *rand.Rand, p *rt.Peer, next, open uint32) []byte {
			// open and finish a stream, then send DATA on it
			a := rt.Concat(rt.HeaderFrames(next, reqBlock(p, next, "closedthen"), nil, -1, nil, true))
			return append(a, raw(wire.TData, 0, next, []byte("late"))...)
		}},
		{"data-on-an-old-answered-stream", []uint32{eClosed, eProtocol}, func(rng *rand.Rand, p *rt.Peer, next, open uint32) []byte {
			// stream 1 is always the oldest stream of the connection; if it was answered this is DATA on a closed stream,
			// otherwise (nothing before, or stream 1 still open) it is simply more traffic and the scenario degenerates
			return raw(wire.TData, 0, 1, []byte("late data on the first stream"))
		}},
		{"compression-error-behind-a-malformed-field", []uint32{eCompress}, func(rng *rand.Rand, p *rt.Peer, next, open uint32) []byte {
			// the block first earns a stream error (an upper-case name, a connection-specific field, a late pseudo-header)
			// and then stops decoding: the connection-scoped error must not get lost behind the stream-scoped one
			bad := []F{{Name: "X-Upper", Value: "v"}, {Name: "connection", Value: "close"}, {Name: ":path", Value: "/late"}}[rng.Intn(3)]
			blk := p.EncodeBlock([]F{{Name: ":method", Value: "GET"}, {Name: ":scheme", Value: "https"}, {Name: ":path", Value: "/c"}, {Name: ":authority", Value: "c.example"}, {Name: "x-ok", Value: "1"}, bad, {Name: "x-after", Value: "2"}}, nil)
			tail := [][]byte{{0x80}, {0xff, 0xff, 0xff, 0xff, 0xff, 0xff, 0xff, 0xff, 0xff, 0xff, 0xff, 0x01}, {0xbf, 0x7f}, {0x00, 0x85, 'a'}}[rng.Intn(4)]
			blk = append(blk, tail...)
			if rng.Intn(2) == 0 {
				cut := 1 + rng.Intn(len(blk)-1)
				return rt.Concat(rt.HeaderFrames(next, blk, []int{cut}, -1, nil, true))
			}
			return raw(wire.THeaders, wire.FEndHeaders|wire.FEndStream, next, blk)
		}},
		// not an offence: the peer itself says GOAWAY(NO_ERROR). The server winds the connection down the same way - a GOAWAY of
		// its own that tells the truth, no stream opened after it, the requests in progress answered, then ServeConn returns
		{"peer-goaway-no-error", []uint32{0}, func(rng *rand.Rand, p *rt.Peer, next, open uint32) []byte {
			return rt.GoAway([]uint32{0, 2, 1<<31 - 1}[rng.Intn(3)], 0, "client going away")
		}},
		{"undecodable-header-block", []uint32{eCompress}, func(rng *rand.Rand, p *rt.Peer, next, open uint32) []byte {
			bad := [][]byte{{0x80}, {0xff, 0xff, 0xff, 0xff, 0xff, 0xff, 0xff, 0xff, 0xff, 0xff, 0xff, 0x01}, {0xbf, 0x7f}, {0x00, 0x85, 'a'}, {0x3f, 0xe1, 0xff, 0x7f}}[rng.Intn(5)]
			return raw(wire.THeaders, wire.FEndHeaders|wire.FEndStream, next, bad)
		}},
	}
}

func TestC10(t *testing.T) {
	r := vf.Begin(t, "C10")
	defer r.End()
	defer perturbReport(r)
	cat := c10Catalogue()
	r.Describe(fmt.Sprintf("PRNG placements (synctest bubble) of one connection-scoped offence out of a catalogue of %d (frame-size, sequencing, stream-0/stream-id, settings, flow-control, compression violations) inside multiplexed traffic: 0-6 requests before it (answered, still running, or parked in the handler) and 0-6 after it, ", len(cat))+
		"followed by one of four peer behaviours (silent; 200-1000 more frames; stops reading while sending; disconnects), plus idle-timeout shutdown racing new requests. Monitors: every GOAWAY's last-stream-id >= the highest stream id any handler was ever started for on the connection; its code is one RFC 7540 allows for the offence (or the connection is just closed); no stream above the highest one opened before the offence is dispatched afterwards; "+
		"ServeConn has returned 15 virtual seconds after the promised handlers finished, whatever the peer does (still present = violation, with the goroutine dump). Distinct = distinct (offence, requests-before states, requests-after, trailing behaviour) vectors.",
		"virtual time (synctest): 'bounded' is judged as 15 fake-clock seconds after the handlers were released, never by wall clock")
	n := r.Pick(1600, 40000)
	for i := 0; i < n; i++ {
		id := fmt.Sprintf("g%d", i)
		if !r.Want(i, id) {
			continue
		}
		r.Progress(id, "")
		c10Scenario(r, t, id, r.Rand(id), cat)
	}
}

func c10Scenario(r *vf.Run, t *testing.T, id string, rng *rand.Rand, cat []c10Offence) {
	off := cat[rng.Intn(len(cat))]
	idle := rng.Intn(12) == 0 // idle-timeout shutdown instead of an offence
	highOffenceID := rng.Intn(4) == 0
	preStall := rng.Intn(8) == 0 && !idle // the peer has stopped reading, and the server's output is backed up, before the offence arrives
	nBefore := rng.Intn(7)
	nAfter := rng.Intn(7)
	trailing := rng.Intn(4) // 0 silent, 1 flood, 2 stops reading + flood, 3 disconnect
	// bigParked: the parked handlers answer with more than the windows hold and the connection window is left at its initial
	// 65535, so the promised responses are still blocked on flow control when the offence has long been answered; the peer
	// then opens the stream windows and, last, the connection window. readTimeout: the server has a ReadTimeout and the
	// peer leaves the requests it never completed alone: the server gives them up itself.
	bigParked := rng.Intn(6) == 0 && !idle && !preStall && (trailing == 0 || trailing == 1)
	withReadTimeout := rng.Intn(6) == 0 && !idle
	states := make([]int, nBefore)
	for i := range states {
		states[i] = rng.Intn(3) // 0 answered, 1 parked, 2 incomplete (no END_STREAM yet)
	}
	if off.Name == "data-on-an-old-answered-stream" {
		if nBefore == 0 {
			nBefore, states = 1, []int{0}
		}
		states[0] = 0
		if nBefore > 1 && rng.Intn(2) == 0 {
			states[nBefore-1] = 2 // the highest stream is still being received when the offence arrives
		}
	}
	var triggers []string
	replay := map[string]any{"offence": off.Name, "offence_on_high_idle_id": highOffenceID, "peer_stopped_reading_before": preStall, "idle_timeout_instead": idle, "before": states, "after": nAfter, "trailing": trailing, "big_parked_responses": bigParked, "server_read_timeout": withReadTimeout}
	failed := false
	fail := func(rule, detail string) {
		if !failed {
			r.Fail("C10."+rule, id, detail, triggers, replay)
		}
		failed = true
	}
	bufToPeer := 4 << 20
	if trailing == 2 {
		bufToPeer = 64 << 10
	}
	if preStall {
		bufToPeer = 64
	}
	res := rt.RunBubble(t, id, 60*time.Second, func() {
		so := rt.ServerOpts{BufToPeer: bufToPeer}
		if idle {
			so.IdleTimeout = 5 * time.Second
		}
		if withReadTimeout {
			so.ReadTimeout = 4 * time.Second
		}
		e := rt.NewServerEnv(id, so)
		if !bigParked {
			e.P.Write(rt.WindowUpdate(0, 1<<30))
		}
		next := uint32(1)
		var openIncomplete uint32
		incomplete := map[uint32]bool{}
		parkedIDs := map[uint32]bool{}
		var parked []chan struct{}
		sent := map[uint32]string{}
		for i := 0; i < nBefore; i++ {
			tag := fmt.Sprintf("%s.%d", id, next)
			blk := reqBlock(e.P, next, tag)
			switch states[i] {
			case 0:
				e.P.Write(rt.Concat(rt.HeaderFrames(next, blk, nil, -1, nil, true)))
			case 1:
				g := e.H.NewGate()
				parked = append(parked, g)
				parkedIDs[next] = true
				body := []byte("late")
				if bigParked {
					body = make([]byte, 70000+rng.Intn(100000))
				}
				e.H.SetPlan(tag, &rt.RespPlan{Status: 200, Body: body, Gate: g})
				e.P.Write(rt.Concat(rt.HeaderFrames(next, blk, nil, -1, nil, true)))
			case 2:
				e.P.Write(rt.Concat(rt.HeaderFrames(next, blk, nil, -1, nil, false)))
				openIncomplete = next
				incomplete[next] = true
			}
			sent[next] = tag
			next += 2
		}
		rt.Wait()
		highestBefore := next - 2
		if nBefore == 0 {
			highestBefore = 0
		}
		if preStall && !idle {
			// nobody drains the server's output any more (64 bytes of transport); a few dozen PINGs leave acknowledgements
			// in the write queue (which holds 128, so the read loop is not held up and does read the offence): the
			// GOAWAY for the offence has to queue behind frames that cannot go out
			e.P.StopReading()
			var flood []byte
			for i := 0; i < 20+rng.Intn(40); i++ {
				flood = append(flood, rt.Ping(false, fmt.Sprintf("p%07d", i))...)
			}
			e.P.Write(flood)
			rt.Wait()
		}
		// the offence (or the idle timeout), immediately followed by more requests
		var burst []byte
		if idle {
			time.Sleep(5*time.Second - time.Millisecond)
		} else {
			offID := next
			if highOffenceID {
				// the offending frame names an idle stream well above everything opened so far; the requests that
				// follow use the ids in between: after a connection error none of them may be dispatched either
				offID = next + 20 + 2*uint32(rng.Intn(10))
			}
			burst = off.Build(rng, e.P, offID, openIncomplete)
			next += 4
		}
		for i := 0; i < nAfter; i++ {
			tag := fmt.Sprintf("%s.%d", id, next)
			burst = append(burst, rt.Concat(rt.HeaderFrames(next, reqBlock(e.P, next, tag), nil, -1, nil, true))...)
			sent[next] = tag
			next += 2
		}
		e.P.Write(burst) // 4 MiB towards the server: never blocks, and stays ahead of whatever the peer sends next
		if idle {
			time.Sleep(2 * time.Millisecond)
		}
		rt.Wait()
		// trailing behaviour of the peer
		switch trailing {
		case 1, 2:
			if trailing == 2 {
				// stop reading: from now on nobody drains the server's output
				e.P.StopReading()
			}
			go func() {
				for i := 0; i < 200+rng.Intn(800); i++ {
					var b []byte
					switch i % 4 {
					case 0:
						b = rt.Ping(false, "flood...")
					case 1:
						b = rt.SettingsFrame()
					case 2:
						b = rt.WindowUpdate(0, 1)
					case 3:
						b = rt.Concat(rt.HeaderFrames(next, reqBlock(e.P, next, "flood"), nil, -1, nil, true))
						next += 2
					}
					if e.P.Write(b) != nil {
						return
					}
				}
			}()
		case 3:
			e.PeerConn.Close()
		}
		rt.Wait()
		// requests the peer never completed cannot "finish" unless the peer completes them or gives them up;
		// it may also give up requests whose handlers are still running
		if trailing != 3 {
			var more []byte
			for sid := uint32(1); sid < next; sid += 2 {
				if incomplete[sid] && withReadTimeout {
					continue // the server's own ReadTimeout ends it
				}
				if incomplete[sid] {
					if rng.Intn(2) == 0 {
						more = append(more, rt.RstStream(sid, 8)...)
					} else {
						more = append(more, wire.Frame(nil, wire.TData, wire.FEndStream, sid, []byte("the rest"), -1)...)
					}
				}
				if parkedIDs[sid] && rng.Intn(3) == 0 {
					more = append(more, rt.RstStream(sid, 8)...)
				}
			}
			if len(more) > 0 {
				e.P.Write(more)
				rt.Wait()
			}
		}
		for _, g := range parked {
			rt.Open(g)
		}
		rt.Wait()
		if bigParked {
			// the promised responses are waiting for window: the streams first, the connection last
			var out []byte
			for sid := range parkedIDs {
				out = append(out, rt.WindowUpdate(sid, 1<<20)...)
			}
			e.P.Write(out)
			rt.Wait()
			e.P.Write(rt.WindowUpdate(0, 1<<30))
			rt.Wait()
			r.Inc("promised_responses_finished_by_a_connection_window_update", int64(len(parkedIDs)))
		}
		time.Sleep(15 * time.Second)
		rt.Wait()
		returned := e.Served()
		fs := e.P.Frames()
		recs, _, _, _ := e.H.Snapshot()
		var maxDispatched uint32
		for _, rc := range recs {
			var sid uint32
			fmt.Sscanf(rc.Tag[strings.LastIndex(rc.Tag, ".")+1:], "%d", &sid)
			if sid > maxDispatched {
				maxDispatched = sid
			}
			if !idle && sid > highestBefore+4 && sid > highestBefore {
				// streams opened after the offence
				if _, ok := sent[sid]; ok {
					fail("dispatch-after-connection-error", fmt.Sprintf("offence %s: stream %d was opened after the connection error and its handler ran (highest stream before the offence: %d)", off.Name, sid, highestBefore))
				}
			}
		}
		sawGoAway := false
		for _, f := range fs {
			if f.Type != wire.TGoAway {
				continue
			}
			sawGoAway = true
			if f.Last < maxDispatched {
				fail("goaway-last-stream-id-too-low", fmt.Sprintf("%s carries last-stream-id %d but a handler was started for stream %d on this connection (a client would replay that request)", f, f.Last, maxDispatched))
			}
			if !idle && !in(off.Codes, f.Code) {
				fail("goaway-wrong-code", fmt.Sprintf("offence %s: GOAWAY code %s, RFC 7540 allows %v", off.Name, errName(f.Code), codeNames(off.Codes)))
			}
			if idle && f.Code != 0 {
				fail("goaway-wrong-code", fmt.Sprintf("idle shutdown: GOAWAY code %s", errName(f.Code)))
			}
		}
		done, _ := e.P.ReadState()
		if !idle && !sawGoAway && !done && trailing != 2 && !preStall && !returned {
			fail("connection-error-ignored", fmt.Sprintf("offence %s: no GOAWAY, the connection is still open and being served; frames:%s", off.Name, frameSummary(fs[3:])))
		}
		if !returned {
			dump := rt.GoroutinesOf(id, "github.com/dgrr/http2.")
			fail("serve-did-not-return", fmt.Sprintf("offence %s (idle=%v), trailing behaviour %d: 15 virtual seconds after the promised handlers finished ServeConn has not returned; GOAWAY seen=%v; SUT goroutines:\n%s", off.Name, idle, trailing, sawGoAway, strings.Join(dump, "\n")))
		}
		if p := e.Log.Panics(); len(p) > 0 {
			fail("panic-logged", p[0])
		}
		r.Inc("goaway_frames_checked", int64(b2i(sawGoAway)))
		r.Inc("handlers_started", int64(len(recs)))
		e.Finish()
	})
	c01Outcome(r, id, res, triggers, replay, "C10")
	r.Mark("offences", off.Name)
	r.Eval(vf.Hash(off.Name, idle, states, nAfter, trailing, highOffenceID, preStall, bigParked, withReadTimeout), true)
	if r.WantSample() {
		r.Sample(replay)
	}
}
