package workers

import (
	"fmt"
	"math/rand"
	"strings"
	"testing"
	"time"

	"h2v/hpackref"
	"h2v/rt"
	"h2v/vf"
	"h2v/wire"
)

// wellFormedResponse is the client half of the property statement: a single valid three-digit :status first, lower-case
// names, no connection-specific field, a numeric content-length; trailers carry no pseudo-header.
func wellFormedResponse(list []F, trailers []F) (bool, string) {
	regular := false
	status := 0
	connSpecific := map[string]bool{"connection": true, "keep-alive": true, "proxy-connection": true, "transfer-encoding": true, "upgrade": true}
	for _, f := range list {
		for _, c := range []byte(f.Name) {
			if c >= 'A' && c <= 'Z' {
				return false, "upper-case name " + f.Name
			}
		}
		if strings.HasPrefix(f.Name, ":") {
			if regular {
				return false, "pseudo-header after a regular field"
			}
			if f.Name != ":status" {
				return false, "pseudo-header " + f.Name + " in a response"
			}
			status++
			if status > 1 {
				return false, "duplicate :status"
			}
			if len(f.Value) != 3 || strings.Trim(f.Value, "0123456789") != "" || f.Value[0] == '0' {
				return false, "invalid :status value " + f.Value
			}
			continue
		}
		regular = true
		if connSpecific[f.Name] {
			return false, "connection-specific field " + f.Name
		}
		if f.Name == "content-length" && (f.Value == "" || strings.Trim(f.Value, "0123456789") != "" || len(strings.TrimLeft(f.Value, "0")) > 18) {
			return false, "content-length is not a (representable) number"
		}
	}
	if status == 0 {
		return false, "no :status"
	}
	for _, f := range trailers {
		if strings.HasPrefix(f.Name, ":") {
			return false, "pseudo-header in trailers"
		}
		for _, c := range []byte(f.Name) {
			if c >= 'A' && c <= 'Z' {
				return false, "upper-case name in trailers"
			}
		}
		if connSpecific[f.Name] {
			return false, "connection-specific field in trailers"
		}
	}
	return true, ""
}

var c20RespMutations = []struct {
	Name  string
	Apply func(rng *rand.Rand, hdr *[]F, trl *[]F) bool
}{
	{"missing-status", func(rng *rand.Rand, h, t *[]F) bool { *h = (*h)[1:]; return true }},
	{"duplicate-status", func(rng *rand.Rand, h, t *[]F) bool {
		*h = insertAt(*h, 1, F{Name: ":status", Value: []string{"200", (*h)[0].Value, "404"}[rng.Intn(3)]})
		return true
	}},
	{"status-after-regular", func(rng *rand.Rand, h, t *[]F) bool {
		st := (*h)[0]
		*h = append(append([]F{}, (*h)[1:]...), st)
		return len(*h) > 1
	}},
	{"status-invalid", func(rng *rand.Rand, h, t *[]F) bool {
		(*h)[0].Value = []string{"", "99", "1000", "2xx", "-20", "20", "abc", "2000"}[rng.Intn(8)]
		return true
	}},
	{"request-pseudo-in-response", func(rng *rand.Rand, h, t *[]F) bool {
		*h = insertAt(*h, rng.Intn(2), F{Name: []string{":path", ":method", ":authority", ":x"}[rng.Intn(4)], Value: "/"})
		return true
	}},
	{"uppercase-name", func(rng *rand.Rand, h, t *[]F) bool {
		*h = insertAt(*h, 1+rng.Intn(len(*h)), F{Name: []string{"X-Upper", "x-uppeR", "Content-Type"}[rng.Intn(3)], Value: "v"})
		return true
	}},
	{"connection-specific", func(rng *rand.Rand, h, t *[]F) bool {
		*h = insertAt(*h, 1+rng.Intn(len(*h)), []F{{Name: "connection", Value: "close"}, {Name: "keep-alive", Value: "timeout=5"}, {Name: "transfer-encoding", Value: "chunked"}, {Name: "upgrade", Value: "h2c"}, {Name: "proxy-connection", Value: "keep-alive"}}[rng.Intn(5)])
		return true
	}},
	{"content-length-not-a-number", func(rng *rand.Rand, h, t *[]F) bool {
		var out []F
		for _, f := range *h {
			if f.Name != "content-length" {
				out = append(out, f)
			}
		}
		*h = append(out, F{Name: "content-length", Value: []string{"abc", "", "-1", "1e3", "18446744073709551621", "12 "}[rng.Intn(6)]})
		return true
	}},
	{"pseudo-in-trailers", func(rng *rand.Rand, h, t *[]F) bool {
		if len(*t) == 0 {
			return false
		}
		*t = insertAt(*t, rng.Intn(len(*t)+1), F{Name: ":status", Value: "200"})
		return true
	}},
	{"uppercase-in-trailers", func(rng *rand.Rand, h, t *[]F) bool {
		if len(*t) == 0 {
			return false
		}
		*t = append(*t, F{Name: "X-Trailer-Up", Value: "v"})
		return true
	}},
}

// c20Client: one malformed (or deliberately well-formed) response among normal ones; the caller of that request alone must fail.
func c20Client(r *vf.Run, t *testing.T, id string, rng *rand.Rand) {
	n := 2 + rng.Intn(4)
	victim := rng.Intn(n)
	reqs := make([]*cliReq, n+1) // the last one is the probe issued afterwards
	for i := range reqs {
		reqs[i] = genCliReq(rng, id, i, 1000, 3000)
	}
	v := reqs[victim]
	hdr := append([]F{{Name: ":status", Value: fmt.Sprint(v.Status)}}, v.RespFields...)
	trl := append([]F{}, v.RespTrail...)
	var rules []string
	if rng.Intn(14) == 0 {
		// a header block of zero octets: no :status, no field at all (on its own, or right after an interim response)
		hdr = nil
		rules = append(rules, "empty-header-block")
	} else if rng.Intn(5) != 0 {
		for k := 1 + rng.Intn(2); k > 0; k-- {
			m := c20RespMutations[rng.Intn(len(c20RespMutations))]
			if m.Apply(rng, &hdr, &trl) {
				rules = append(rules, m.Name)
			}
		}
	}
	well, why := wellFormedResponse(hdr, trl)
	viaIndex := !well && rng.Intn(4) == 0
	replay := map[string]any{"role": "client", "rules": rules, "victim_header": fmtFields(hdr), "victim_trailers": fmtFields(trl), "via_table_index": viaIndex, "requests": n}
	failed := false
	fail := func(rule, detail string) {
		if !failed {
			r.Fail("C20."+rule, id, detail, nil, replay)
		}
		failed = true
	}
	res := rt.RunBubble(t, id, 60*time.Second, func() {
		e := rt.NewClientEnv(id, rt.ClientOpts{PeerSettings: []wire.Setting{{ID: 4, Val: 1 << 20}}})
		if e.HandshakeErr != nil {
			fail("handshake", e.HandshakeErr.Error())
			return
		}
		e.P.Write(rt.WindowUpdate(0, 1<<24))
		calls := make([]*rt.Call, n+1)
		for i := 0; i < n; i++ {
			calls[i] = e.Do(reqs[i].Tag, reqs[i].build)
			rt.Wait()
		}
		streamOf := map[string]uint32{}
		for _, s := range e.RequestsSeen() {
			tag, _ := s.Get("x-vtag")
			streamOf[tag] = s.Stream
		}
		if viaIndex {
			// an extra request receives the same header list as literals with incremental indexing first, so that the
			// victim's copy can consist of references to the table entries it left behind
			x := genCliReq(rng, id, 50, 10, 10)
			xc := e.Do(x.Tag, x.build)
			rt.Wait()
			for _, s := range e.RequestsSeen() {
				if tag, _ := s.Get("x-vtag"); tag == x.Tag {
					blk := e.P.EncodeBlock(hdr, []hpackref.Choice{{Rep: hpackref.RepIncremental}})
					e.P.Write(rt.Concat(rt.HeaderFrames(s.Stream, blk, nil, -1, nil, true)))
				}
			}
			rt.Wait()
			_ = xc
		}
		order := rng.Perm(n)
		for _, i := range order {
			q := reqs[i]
			sid := streamOf[q.Tag]
			if i != victim {
				var out []byte
				out = append(out, q.respHeaderBytes(e.P, sid)...)
				for _, f := range q.respData(sid) {
					out = append(out, f...)
				}
				if len(q.RespTrail) > 0 {
					out = append(out, q.respTrailerBytes(e.P, sid)...)
				}
				e.P.Write(out)
				continue
			}
			choices := q.Choices
			if viaIndex {
				choices = []hpackref.Choice{{Rep: hpackref.RepIndexed, NameIndex: true}}
			}
			blk := e.P.EncodeBlock(hdr, choices)
			es := len(q.RespBody) == 0 && len(trl) == 0
			out := rt.Concat(rt.HeaderFrames(sid, blk, splitsFor(q.SplitSeed, len(blk)), q.PadLen, nil, es))
			if !es {
				for _, f := range rt.DataFrames(sid, q.RespBody, q.Chunks, q.Pads, len(trl) == 0) {
					out = append(out, f...)
				}
				if len(trl) > 0 {
					tb := e.P.EncodeBlock(trl, q.Choices)
					out = append(out, rt.Concat(rt.HeaderFrames(sid, tb, nil, -1, nil, true))...)
				}
			}
			e.P.Write(out)
			if rng.Intn(2) == 0 {
				rt.Wait()
			}
		}
		rt.Wait()
		// the probe after it
		calls[n] = e.Do(reqs[n].Tag, reqs[n].build)
		rt.Wait()
		for _, s := range e.RequestsSeen() {
			if tag, _ := s.Get("x-vtag"); tag == reqs[n].Tag {
				q := reqs[n]
				var out []byte
				out = append(out, q.respHeaderBytes(e.P, s.Stream)...)
				for _, f := range q.respData(s.Stream) {
					out = append(out, f...)
				}
				if len(q.RespTrail) > 0 {
					out = append(out, q.respTrailerBytes(e.P, s.Stream)...)
				}
				e.P.Write(out)
			}
		}
		rt.Wait()
		for i, q := range reqs {
			c := calls[i]
			if i == victim {
				done, err, _ := c.Outcome()
				switch {
				case !well && done && err == nil:
					fail("malformed-response-delivered", fmt.Sprintf("the response to %s is malformed (%s; mutations %v; header list [%s]; trailers [%s]) but its caller got success with status %d", q.Tag, why, rules, fmtFields(hdr), fmtFields(trl), c.Res.StatusCode()))
				case !well && !done:
					fail("malformed-response-not-failed", fmt.Sprintf("the response to %s is malformed (%s) and complete, but its caller is still waiting", q.Tag, why))
				case well && (!done || err != nil):
					fail("wellformed-response-refused", fmt.Sprintf("the response to %s is well-formed ([%s]) but its caller got done=%v err=%v", q.Tag, fmtFields(hdr), done, err))
				}
				continue
			}
			if d := q.checkDelivered(c); d != "" {
				what := "a neighbour of"
				if i == n {
					what = "the probe after"
				}
				fail("other-request-disturbed", fmt.Sprintf("request %s is %s a response that is malformed=%v (%s): %s", q.Tag, what, !well, why, d))
			}
		}
		for _, f := range e.P.Frames() {
			if f.Type == wire.TGoAway {
				fail("connection-torn-down", fmt.Sprintf("a response with %v (malformed=%v) made the client send %s", rules, !well, f))
			}
		}
		e.Finish()
	})
	c01Outcome(r, id, res, nil, replay, "C20")
	for _, ru := range rules {
		r.Mark("rules_exercised", "resp:"+ru)
	}
	if well {
		r.Inc("wellformed_response_cases", 1)
	} else {
		r.Inc("malformed_response_cases", 1)
	}
	r.Eval(vf.Hash("client", rules, well, viaIndex, n), true)
}
