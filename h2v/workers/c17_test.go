package workers

import (
	"fmt"
	"math/rand"
	"strings"
	"sync/atomic"
	"testing"
	"time"

	"h2v/pooltrack"
	"h2v/rt"
	"h2v/vf"
	"h2v/wire"
)

// currentHarness is the harness of the bubble that is running (one at a time per worker process);
// the process-wide pool observer forwards request-context traffic to it.
var currentHarness atomic.Pointer[rt.Harness]

func installCtxWatch() *pooltrack.Tracker {
	trk := pooltrack.New()
	trk.Stacks = false
	trk.OnRelease = func(kind string, obj any) {
		if kind == "reqctx" {
			if h := currentHarness.Load(); h != nil {
				h.PoolEvent(obj, false)
			}
		}
	}
	trk.OnAcquire = func(kind string, obj any) {
		if kind == "reqctx" {
			if h := currentHarness.Load(); h != nil {
				h.PoolEvent(obj, true)
			}
		}
	}
	trk.Install()
	return trk
}

// recordClientStream builds a well-formed client byte stream (after preface+SETTINGS) as a list of frames.
func recordClientStream(rng *rand.Rand, p *rt.Peer, id string, k int, g genOpts) ([][]byte, []*reqSpec) {
	reqs := make([]*reqSpec, k)
	data := make([][]unit, k)
	counts := make([]int, k)
	for i := range reqs {
		reqs[i] = genRequest(rng, id, i, g)
		data[i] = reqs[i].dataUnits()
		counts[i] = len(data[i])
	}
	var frames [][]byte
	for _, o := range mergeOrder(rng, reqs, counts, rng.Intn(3) == 0) {
		q := reqs[o[0]]
		switch o[1] {
		case -1:
			frames = append(frames, splitFrames(q.headerBytes(p))...)
		case -2:
			frames = append(frames, splitFrames(q.trailerBytes(p))...)
		default:
			frames = append(frames, data[o[0]][o[1]].frame)
		}
		switch rng.Intn(12) {
		case 0:
			frames = append(frames, rt.Ping(false, "rec-ping"))
		case 1:
			frames = append(frames, rt.WindowUpdate(0, uint32(1+rng.Intn(1000))))
		case 2:
			frames = append(frames, rt.SettingsFrame(wire.Setting{ID: 4, Val: uint32(1000 + rng.Intn(1<<20))}))
		case 3:
			frames = append(frames, rt.Priority(uint32(1+2*rng.Intn(20)), uint32(2*rng.Intn(10)), false, 5))
		}
	}
	return frames, reqs
}

// splitFrames cuts a concatenation of frames into individual frames.
func splitFrames(b []byte) [][]byte {
	var out [][]byte
	for len(b) >= 9 {
		n := 9 + (int(b[0])<<16 | int(b[1])<<8 | int(b[2]))
		if n > len(b) {
			n = len(b)
		}
		out = append(out, b[:n])
		b = b[n:]
	}
	return out
}

func TestC17(t *testing.T) {
	r := vf.Begin(t, "C17")
	defer r.End()
	defer perturbReport(r)
	r.Describe("PRNG hostile-peer scenarios (synctest bubble, transport buffers 1 B / 4 KiB / 64 KiB / 4 MiB): (A) recorded well-formed client byte streams (1-6 multiplexed requests with bodies, trailers, continuations, padding, control frames) cut at a byte offset (every offset in thorough for short streams), ended by EOF or RST; "+
		"(B) structure-aware mutations (frame insert/delete/duplicate/reorder, header-field flips, length lies); (C) frame soups; (D) the peer never reads, floods PING/SETTINGS/requests, then disconnects; (E) the server's transport write fails after N bytes; (F) disconnect while 1-8 handlers run, are parked, or stream bodies. "+
		"Monitors: no 'panicked' line in the server's logger except for a handler the scenario made panic; the worker process survives; ServeConn has returned 15 virtual seconds after the peer is gone; no goroutine of the connection with a dgrr/http2 frame is left; no RequestCtx goes back to (or comes out of) the pool while the handler that received it is still running. "+
		"Distinct = distinct (family, cut/mutation class, buffer size, handler mode, ending).",
		"goroutines are attributed to a connection by pprof labels inherited from the scenario goroutine", "virtual time (synctest) for 'returns once the peer is gone'")
	trk := installCtxWatch()
	defer pooltrack.Uninstall()
	n := r.Pick(4000, 150000)
	for i := 0; i < n; i++ {
		id := fmt.Sprintf("h%d", i)
		if !r.Want(i, id) {
			continue
		}
		r.Progress(id, "")
		if vf.Hash("c17-family", id)%40 == 0 {
			c17HalfClose(r, t, id, r.Rand(id))
			continue
		}
		c17Scenario(r, t, id, r.Rand(id))
		if i%200 == 0 {
			trk.Reset()
		}
	}
}

func c17Scenario(r *vf.Run, t *testing.T, id string, rng *rand.Rand) {
	family := []string{"prefix", "prefix", "prefix", "mutation", "mutation", "soup", "stall", "writefault", "disconnect-handlers"}[rng.Intn(9)]
	buf := []int{1, 4 << 10, 64 << 10, 4 << 20}[rng.Intn(4)]
	bufIn := []int{1, 4 << 10, 64 << 10, 4 << 20}[rng.Intn(4)]
	handlerMode := rng.Intn(3) // 0 immediate, 1 parked until the end, 2 slow (virtual sleep)
	ending := rng.Intn(2)      // 0 EOF, 1 RST
	k := 1 + rng.Intn(6)
	g := genOpts{MaxBody: 3000, AllowTrail: true, AllowUnder: true, RespStream: true, AllowStream2: true, MaxRespBody: 40000}
	var timeouts [3]time.Duration
	if rng.Intn(2) == 0 {
		timeouts[0] = []time.Duration{0, time.Second, 4 * time.Second}[rng.Intn(3)]
		timeouts[1] = []time.Duration{0, 2 * time.Second, 10 * time.Second}[rng.Intn(3)]
		timeouts[2] = []time.Duration{0, time.Second, 3 * time.Second}[rng.Intn(3)]
	}
	debugLog := rng.Intn(4) == 0
	var triggers []string
	class := ""
	replay := map[string]any{"family": family, "debug_logging": debugLog, "read_idle_ping_s": []float64{timeouts[0].Seconds(), timeouts[1].Seconds(), timeouts[2].Seconds()}, "buf_to_peer": buf, "buf_to_sut": bufIn, "handler_mode": handlerMode, "ending": ending, "requests": k}
	failed := false
	fail := func(rule, detail string) {
		if !failed {
			r.Fail("C17."+rule, id, detail, triggers, replay)
		}
		failed = true
	}
	deliberatePanic := false
	res := rt.RunBubble(t, id, 60*time.Second, func() {
		so := rt.ServerOpts{BufToPeer: buf, BufToSUT: bufIn, NoHandshake: true}
		// the server's own clocks run in half of the scenarios: request timeout, idle timeout, pings nobody answers
		so.ReadTimeout, so.IdleTimeout, so.PingInterval = timeouts[0], timeouts[1], timeouts[2]
		so.Debug = debugLog // the server's debug logging formats peer-controlled values: it must survive them too
		e := rt.NewServerEnv(id, so)
		currentHarness.Store(e.H)
		defer currentHarness.Store(nil)
		switch handlerMode {
		case 1:
			e.H.SetDefault(&rt.RespPlan{Status: 200, Body: make([]byte, 5000), Gate: e.H.NewGate()})
		case 2:
			e.H.SetDefault(&rt.RespPlan{Status: 200, Body: make([]byte, 70000), Sleep: 3 * time.Second, Stream: 2 + rng.Intn(2), ReadChunk: 1000})
		}
		hello := append([]byte(wire.Preface), rt.SettingsFrame()...)
		frames, reqs := recordClientStream(rng, e.P, id, k, g)
		for _, q := range reqs {
			pl := *q.Resp
			if handlerMode == 1 {
				pl.Gate = e.H.NewGate()
			}
			if handlerMode == 2 {
				pl.Sleep = time.Duration(rng.Intn(5000)) * time.Millisecond
				if rng.Intn(2) == 0 && len(pl.Body) > 0 {
					// produced by a writer goroutine (SetBodyStreamWriter), and larger than the peer's window now and then
					pl.Stream = 3
					if rng.Intn(2) == 0 {
						pl.Body = make([]byte, 70000+rng.Intn(50000))
					}
				}
			}
			if rng.Intn(25) == 0 {
				pl.Panic = true
				deliberatePanic = true
			}
			e.H.SetPlan(q.Tag, &pl)
		}
		stream := append(append([]byte{}, hello...), rt.Concat(frames)...)
		// writer goroutine so that a full transport buffer does not block the scenario
		write := func(b []byte) {
			done := make(chan struct{})
			go func() { defer close(done); e.P.Write(b) }()
			rt.Wait()
			_ = done
		}
		closePeer := func() {
			if ending == 1 {
				e.PeerConn.Reset()
			} else {
				e.PeerConn.Close()
			}
		}
		switch family {
		case "prefix":
			cut := rng.Intn(len(stream) + 1)
			if rng.Intn(3) == 0 {
				cut = rng.Intn(min(len(stream), 200) + 1) // the handshake and first frames deserve every offset
			}
			replay["cut"] = cut
			class = fmt.Sprintf("cut%%9=%d", cut%9)
			write(stream[:cut])
		case "mutation":
			fr := append([][]byte{}, frames...)
			for m := 1 + rng.Intn(3); m > 0 && len(fr) > 0; m-- {
				i := rng.Intn(len(fr))
				switch op := rng.Intn(9); op {
				case 8: // structure-aware: hostile HPACK appended to (or replacing) a header block fragment
					c := append([]byte{}, fr[i]...)
					if len(c) >= 9 && (c[3] == wire.THeaders || c[3] == wire.TContinuation) && c[4]&(wire.FPadded|wire.FPriority) == 0 {
						nasty := [][]byte{
							{0x00, 0x7f, 0x80, 0x80, 0x80, 0x80, 0x80, 0x80, 0x80, 0x80, 0x80, 0x01},       // name length with bit 63 set
							{0x00, 0x01, 'a', 0x7f, 0x81, 0x80, 0x80, 0x80, 0x80, 0x80, 0x80, 0x80, 0x80, 0x01}, // value length 2^63+...
							{0x00, 0xff, 0xff, 0xff, 0xff, 0xff, 0xff, 0xff, 0xff, 0xff, 0xff, 0x7f},          // huffman-flagged length, 11 continuation octets
							{0xff, 0xff, 0xff, 0xff, 0xff, 0xff, 0xff, 0xff, 0xff, 0xff, 0x01},                // index 2^64-ish
							{0x80},                                     // index 0
							{0x3f, 0xff, 0xff, 0xff, 0xff, 0xff, 0x7f}, // table size update far above the limit
							{0x40, 0x85, 0xff, 0xff, 0xff, 0xff, 0xff, 0x00}, // huffman name ending in EOS-like padding
							{0x00, 0x00, 0x00},                         // empty name, empty value
						}[rng.Intn(8)]
						body := c[9:]
						if rng.Intn(2) == 0 {
							body = nil
						}
						body = append(append([]byte{}, body...), nasty...)
						c = wire.Frame(nil, c[3], c[4], uint32(c[5]&0x7f)<<24|uint32(c[6])<<16|uint32(c[7])<<8|uint32(c[8]), body, -1)
					}
					fr[i] = c
					class += "K"
				case 7: // structure-aware: a HEADERS/DATA frame re-flagged PADDED (+PRIORITY) with a PRNG pad length octet
					c := append([]byte{}, fr[i]...)
					if len(c) > 9 && (c[3] == wire.THeaders || c[3] == wire.TData) {
						c[4] |= wire.FPadded
						if c[3] == wire.THeaders && rng.Intn(2) == 0 {
							c[4] |= wire.FPriority
						}
						n := len(c) - 9
						c[9] = byte([]int{0, 1, n - 1, n - 2, n - 5, n - 6, n - 7, n, 255, rng.Intn(256)}[rng.Intn(10)])
					}
					fr[i] = c
					class += "X"
				case 0: // delete
					fr = append(fr[:i], fr[i+1:]...)
					class += "D"
				case 1: // duplicate
					fr = append(fr[:i+1], fr[i:]...)
					class += "U"
				case 2: // swap with neighbour
					if i+1 < len(fr) {
						fr[i], fr[i+1] = fr[i+1], fr[i]
					}
					class += "S"
				case 3: // flip a header byte (length/type/flags/stream)
					c := append([]byte{}, fr[i]...)
					c[rng.Intn(9)] ^= 1 << uint(rng.Intn(8))
					fr[i] = c
					class += "H"
				case 4: // flip a payload byte
					c := append([]byte{}, fr[i]...)
					if len(c) > 9 {
						c[9+rng.Intn(len(c)-9)] ^= 1 << uint(rng.Intn(8))
					}
					fr[i] = c
					class += "P"
				case 5: // insert a control or garbage frame
					ins := [][]byte{rt.RstStream(uint32(1+2*rng.Intn(8)), 8), rt.WindowUpdate(uint32(2*rng.Intn(8)), uint32(rng.Int31())), rt.GoAway(0, 0, "bye"), wire.Frame(nil, byte(rng.Intn(16)), byte(rng.Intn(256)), uint32(rng.Intn(12)), make([]byte, rng.Intn(20)), -1), rt.SettingsFrame(wire.Setting{ID: uint16(rng.Intn(8)), Val: rng.Uint32()})}[rng.Intn(5)]
					fr = append(fr[:i], append([][]byte{ins}, fr[i:]...)...)
					class += "I"
				case 6: // stream id rewritten
					c := append([]byte{}, fr[i]...)
					c[8] = byte(rng.Intn(16))
					fr[i] = c
					class += "R"
				}
			}
			write(append(append([]byte{}, hello...), rt.Concat(fr)...))
		case "soup":
			b := append([]byte{}, hello...)
			for i := 0; i < 5+rng.Intn(60); i++ {
				typ := byte(rng.Intn(11))
				sid := uint32(rng.Intn(10))
				var pl []byte
				switch typ {
				case wire.THeaders, wire.TContinuation:
					pl = reqBlock(e.P, sid|1, fmt.Sprintf("%s.s%d", id, i))
					if rng.Intn(3) == 0 {
						pl = pl[:rng.Intn(len(pl)+1)]
					}
				case wire.TRstStream, wire.TWindowUpdate:
					pl = wire.U32(uint32(rng.Intn(1 << 16)))
				case wire.TPing:
					pl = make([]byte, 8)
				case wire.TPriority:
					pl = wire.PriorityFields(uint32(rng.Intn(10)), false, 1)
				case wire.TSettings:
					pl = wire.SettingsPayload([]wire.Setting{{ID: uint16(1 + rng.Intn(6)), Val: uint32(rng.Intn(1 << 17))}})
					sid = 0
				default:
					pl = make([]byte, rng.Intn(40))
				}
				b = append(b, wire.Frame(nil, typ, byte(rng.Intn(64)), sid, pl, -1)...)
			}
			class = "soup"
			write(b)
		case "stall":
			e.P.StopReading()
			b := append([]byte{}, hello...)
			nfl := 200 + rng.Intn(3000)
			kind := rng.Intn(4)
			class = fmt.Sprintf("flood%d", kind)
			next := uint32(1)
			for i := 0; i < nfl; i++ {
				switch kind {
				case 0:
					b = append(b, rt.Ping(false, "stallpng")...)
				case 1:
					b = append(b, rt.SettingsFrame()...)
				case 2:
					b = append(b, rt.Concat(rt.HeaderFrames(next, reqBlock(e.P, next, fmt.Sprintf("%s.f%d", id, next)), nil, -1, nil, true))...)
					next += 2
				case 3:
					b = append(b, [][]byte{rt.Ping(false, "mixedpng"), rt.SettingsFrame(), rt.WindowUpdate(0, 1)}[i%3]...)
				}
			}
			replay["flood_frames"] = nfl
			if rng.Intn(2) == 0 {
				// something the stream loop has to answer with a connection error, queued behind the flood
				b = append(b, [][]byte{rt.RstStream(next+100, 8), rt.WindowUpdate(next+100, 5), wire.Frame(nil, wire.TData, 0, next+100, []byte("idle"), -1), rt.Priority(next+100, next+100, false, 1), rt.WindowUpdate(0, 1<<31-1), rt.WindowUpdate(0, 1<<31-1)}[rng.Intn(6)]...)
				b = append(b, rt.WindowUpdate(0, 1<<31-1)...)
				class += "+connerr"
				if rng.Intn(2) == 0 {
					// and the peer goes on: more frames than the hand-over queue between the read loop and the stream
					// loop holds, so that the read loop is waiting for room in it when the stream loop gives up
					for i := 0; i < 150+rng.Intn(400); i++ {
						if i%3 == 2 {
							b = append(b, rt.Concat(rt.HeaderFrames(next+200+uint32(2*i), reqBlock(e.P, next+200+uint32(2*i), "late"), nil, -1, nil, true))...)
						} else {
							b = append(b, rt.WindowUpdate(0, 1)...)
						}
					}
					class += "+more"
				}
			}
			write(b)
			time.Sleep(time.Duration(rng.Intn(3000)) * time.Millisecond)
			rt.Wait()
		case "writefault":
			e.SUTConn.FailWriteAfter = int64(rng.Intn(3000))
			if rng.Intn(3) == 0 {
				e.SUTConn.FailWriteAfter = int64(rng.Intn(60))
			}
			replay["fail_write_after"] = e.SUTConn.FailWriteAfter
			class = "wf"
			write(stream)
			time.Sleep(time.Second)
			rt.Wait()
		case "disconnect-handlers":
			class = "dh"
			write(stream)
			time.Sleep(time.Duration(rng.Intn(4000)) * time.Millisecond)
			rt.Wait()
		}
		closePeer()
		rt.Wait()
		if handlerMode == 1 && rng.Intn(2) == 0 {
			// handlers outlive the connection for a while
			time.Sleep(2 * time.Second)
			rt.Wait()
		}
		returned, leaked := e.Finish()
		// give straggling handler goroutines (virtual sleeps) time to end before judging leaks
		if len(leaked) > 0 {
			time.Sleep(20 * time.Second)
			rt.Wait()
			leaked = rt.GoroutinesOf(id, "github.com/dgrr/http2.")
		}
		if w := rt.GoroutinesOf(id, "fasthttp.NewStreamReader"); len(w) > 0 && returned {
			// a response produced with SetBodyStreamWriter runs on a goroutine fasthttp starts; it ends when the body is
			// read to its end or closed, so a connection that goes away has to close the bodies it still holds
			fail("goroutine-leak", fmt.Sprintf("family %s: ServeConn returned but %d response-writer goroutine(s) (SetBodyStreamWriter) of the connection are still waiting for somebody to read or close their body:\n%s", family, len(w), strings.Join(w, "\n")))
		}
		if !returned {
			fail("serve-did-not-return", fmt.Sprintf("family %s: 15 virtual seconds after the peer disconnected ServeConn has not returned. SUT goroutines:\n%s", family, strings.Join(rt.GoroutinesOf(id, "github.com/dgrr/http2."), "\n")))
		} else if len(leaked) > 0 {
			fail("goroutine-leak", fmt.Sprintf("family %s: ServeConn returned but %d goroutine(s) of the connection are still alive 35 virtual seconds later:\n%s", family, len(leaked), strings.Join(leaked, "\n")))
		}
		for _, l := range e.Log.Panics() {
			if deliberatePanic && strings.Contains(l, "handler panic requested by the scenario") {
				continue
			}
			fail("panic-recovered", "the server logged a recovered panic: "+l)
		}
		_, _, _, ctxv := e.H.Snapshot()
		if len(ctxv) > 0 {
			fail("request-context-recycled", ctxv[0])
		}
		recs, _, _, _ := e.H.Snapshot()
		r.Inc("handlers_started", int64(len(recs)))
	})
	switch {
	case res.TimedOut:
		r.Inconclusive("real-time watchdog expired inside a bubble")
	case res.Panic != "":
		fail("panic", "panic on the scenario goroutine: "+res.Panic+"\n"+res.PanicStack)
	case res.Deadlock:
		r.Inc("bubbles_ended_with_stuck_goroutines", 1)
		fail("goroutine-stuck-for-ever", "the bubble ended with goroutines that can never run again (synctest deadlock)")
	}
	r.Mark("families", family)
	r.Eval(vf.Hash(family, class, buf, bufIn, handlerMode, ending, timeouts[0] > 0, timeouts[1] > 0, timeouts[2] > 0), true)
	if timeouts[0]+timeouts[1]+timeouts[2] > 0 {
		r.Inc("scenarios_with_server_timers_running", 1)
	}
	if r.WantSample() {
		r.Sample(replay)
	}
}

// c17HalfClose: the peer asks for a response far larger than the transport holds, stops reading it, and then ends its
// own sending direction (FIN) while the socket stays open. It will never send another frame and never reads another
// byte: it is gone, and ServeConn returns - it does not sit behind a write that can never complete.
func c17HalfClose(r *vf.Run, t *testing.T, id string, rng *rand.Rand) {
	buf := []int{4 << 10, 64 << 10, 1 << 20}[rng.Intn(3)]
	size := (3 + rng.Intn(4)) << 20
	mode := rng.Intn(4)
	replay := map[string]any{"family": "half-close-behind-a-stalled-response", "buf_to_peer": buf, "response": size, "response_mode": mode}
	failed := false
	fail := func(rule, detail string) {
		if !failed {
			r.Fail("C17."+rule, id, detail, nil, replay)
		}
		failed = true
	}
	res := rt.RunBubble(t, id, 60*time.Second, func() {
		e := rt.NewServerEnv(id, rt.ServerOpts{BufToPeer: buf})
		tag := id + ".big"
		e.H.SetPlan(tag, &rt.RespPlan{Status: 200, Body: make([]byte, size), Stream: mode, ReadChunk: 16384})
		rt.Wait()
		e.P.StopReading()
		e.P.Write(append(append(rt.WindowUpdate(0, 1<<30), simpleGet(e.P, 1, tag)...), rt.WindowUpdate(1, 1<<30)...))
		rt.Wait()
		if rng.Intn(2) == 0 {
			time.Sleep(time.Duration(rng.Intn(3000)) * time.Millisecond)
			rt.Wait()
		}
		e.PeerConn.CloseWrite()
		rt.Wait()
		time.Sleep(15 * time.Second)
		rt.Wait()
		if !e.Served() {
			fail("serve-did-not-return", fmt.Sprintf("the peer stopped reading a %d-byte response (%d bytes of transport), then closed its sending direction and kept the socket open; 15 virtual seconds later ServeConn has not returned. SUT goroutines:\n%s", size, buf, strings.Join(rt.GoroutinesOf(id, "github.com/dgrr/http2."), "\n")))
		}
		returned, leaked := e.Finish()
		if len(leaked) > 0 {
			time.Sleep(20 * time.Second)
			rt.Wait()
			leaked = rt.GoroutinesOf(id, "github.com/dgrr/http2.")
		}
		if returned && len(leaked) > 0 {
			fail("goroutine-leak", fmt.Sprintf("ServeConn returned but %d goroutine(s) of the connection are still alive:\n%s", len(leaked), strings.Join(leaked, "\n")))
		}
		if w := rt.GoroutinesOf(id, "fasthttp.NewStreamReader"); len(w) > 0 && returned {
			fail("goroutine-leak", fmt.Sprintf("ServeConn returned but %d response-writer goroutine(s) are still waiting for somebody to read or close their body", len(w)))
		}
		for _, l := range e.Log.Panics() {
			fail("panic-recovered", "the server logged a recovered panic: "+l)
		}
		r.Inc("half_close_cases", 1)
	})
	switch {
	case res.TimedOut:
		r.Inconclusive("real-time watchdog expired inside a bubble")
	case res.Panic != "":
		fail("panic", "panic on the scenario goroutine: "+res.Panic+"\n"+res.PanicStack)
	case res.Deadlock:
		fail("goroutine-stuck-for-ever", "the bubble ended with goroutines that can never run again (synctest deadlock)")
	}
	r.Mark("families", "half-close")
	r.Eval(vf.Hash("half-close", buf, size>>20, mode), true)
}
