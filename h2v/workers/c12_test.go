package workers

import (
	"errors"
	"fmt"
	"math/rand"
	"os"
	"runtime"
	"strings"
	"sync/atomic"
	"testing"
	"time"

	http2 "github.com/dgrr/http2"
	"github.com/valyala/fasthttp"

	"h2v/fakeconn"
	"h2v/hpackref"
	"h2v/rt"
	"h2v/vf"
	"h2v/wire"
)

func TestC12(t *testing.T) {
	r := vf.Begin(t, "C12")
	defer r.End()
	defer perturbReport(r)
	r.Describe("PRNG scenarios on one client connection (synctest bubble), 1-16 concurrent callers: (a) a recorded valid server byte stream (responses with continuations, padding, trailers, interleaving) cut at a byte offset and ended by EOF or RST; (b) single-frame mutations of it (type, flags, length +/-, stream id -> 0/even/unknown, payload flips, duplicate, drop, reorder); "+
		"(c) scripted adversaries: RST_STREAM with every code, GOAWAY variants, oversized frames, garbage, HEADERS on idle streams, PUSH_PROMISE, WINDOW_UPDATE 0/overflow, SETTINGS storms and invalid SETTINGS, CONTINUATION floods, silence (PINGs never answered); (d) transport write failures on the client side after N bytes / on the k-th write; (e) Close racing Write. "+
		"Monitors per request: exactly one kind of outcome (never nil and an error both), nil only together with exactly the response the server delivered completely, every request resolved once the connection is dead or closed and 30 virtual seconds have passed; no runtime panic surfacing as LastErr, the worker process survives, and no goroutine of the connection is left. "+
		"Distinct = distinct (family, sub-kind, cut/mutation class, callers, ending).",
		"virtual time (synctest) for 'resolved within a bounded time after the connection died'", "at connection level there is no per-request timeout (it lives in RoundTrip): silence is bounded by the ping check")
	// RoundTrip pools its per-request Ctx objects, each with a timer and a channel of the bubble that made them: the
	// pool hook keeps them from travelling into a later bubble (withholding is always legal for a sync.Pool)
	http2.VerifSetPoolHook(func(kind string, obj any, acquire bool) bool {
		poisonHook(kind, obj, acquire)
		return kind == "clientctx" && !acquire
	})
	defer http2.VerifSetPoolHook(poisonHook)
	n := r.Pick(3000, 60000)
	for i := 0; i < n; i++ {
		id := fmt.Sprintf("x%d", i)
		if !r.Want(i, id) {
			continue
		}
		r.Progress(id, "")
		t0 := time.Now()
		// the family is chosen by a hash of the case id, so that the slow real-time cases spread over all shards
		switch h := vf.Hash("c12-family", id); {
		case h%300 == 7:
			c12WedgedClose(r, t, id, r.Rand(id))
		case h%20 == 3:
			c12Handshake(r, t, id, r.Rand(id))
		case h%6 == 5:
			c12RoundTrip(r, t, id, r.Rand(id))
		default:
			c12Scenario(r, t, id, r.Rand(id))
		}
		if d := time.Since(t0); d > 3*time.Second && os.Getenv("VERIF_DEBUG") != "" {
			fmt.Printf("SLOW %s %v\n", id, d)
		}
	}
}

func c12Scenario(r *vf.Run, t *testing.T, id string, rng *rand.Rand) {
	family := []string{"cut", "cut", "mutate", "mutate", "adversary", "adversary", "writefault", "close-race", "early", "body-error"}[rng.Intn(10)]
	k := 1 + rng.Intn(6)
	if rng.Intn(4) == 0 {
		k = 1 + rng.Intn(16)
	}
	ending := rng.Intn(3) // 0 EOF, 1 RST, 2 stays open (then Close by the caller side)
	reqs := make([]*cliReq, k)
	for i := range reqs {
		reqs[i] = genCliReq(rng, id, i, 3000, 20000)
		if family == "early" && rng.Intn(4) != 0 {
			// an upload that will be stuck behind the server's flow-control window when the answer comes
			q := reqs[i]
			q.Method = "POST"
			q.Body = make([]byte, 1500+rng.Intn(40000))
			rng.Read(q.Body)
			q.BodyMode = 1 + rng.Intn(3)
			q.ReadChunk = []int{0, 100, 5000, 16384}[rng.Intn(4)]
		}
	}
	failing := map[string]bool{} // requests whose streamed body reader fails part way (family body-error)
	if family == "body-error" {
		for i, q := range reqs {
			if i == 0 || rng.Intn(3) == 0 {
				q.Method = "POST"
				q.Body = make([]byte, 1+rng.Intn(40000))
				rng.Read(q.Body)
				q.BodyMode = 2 + rng.Intn(2)
				q.ReadChunk = []int{0, 100, 5000, 16384}[rng.Intn(4)]
				q.BodyErrAt = 1 + rng.Intn(len(q.Body))
				failing[q.Tag] = true
			}
		}
	}
	earlyWindow := uint32([]int{0, 0, 1, 100, 1000}[rng.Intn(5)])
	if family == "body-error" && rng.Intn(2) == 0 {
		earlyWindow = 1 << 20
	}
	class := ""
	replay := map[string]any{"family": family, "callers": k, "ending": ending}
	failed := false
	fail := func(rule, detail string) {
		if !failed {
			r.Fail("C12."+rule, id, detail, nil, replay)
		}
		failed = true
	}
	res := rt.RunBubble(t, id, 25*time.Second, func() {
		opts := rt.ClientOpts{PeerSettings: []wire.Setting{{ID: 4, Val: 1 << 20}}}
		if family == "early" || family == "body-error" {
			opts.PeerSettings = []wire.Setting{{ID: 4, Val: earlyWindow}}
		}
		silence := false
		if family == "adversary" && rng.Intn(8) == 0 {
			silence = true
			opts.NoAutoPingAck = true
			opts.PingInterval = 3 * time.Second
		}
		e := rt.NewClientEnv(id, opts)
		if e.HandshakeErr != nil {
			fail("handshake", e.HandshakeErr.Error())
			return
		}
		if family == "writefault" {
			if rng.Intn(2) == 0 {
				e.SUTConn.FailWriteAfter = int64(100 + rng.Intn(4000))
			} else {
				e.SUTConn.FailWriteN = int64(3 + rng.Intn(12))
			}
			class = "wf"
		}
		e.P.Write(rt.WindowUpdate(0, 1<<24))
		calls := make([]*rt.Call, k)
		for i, q := range reqs {
			calls[i] = e.Do(q.Tag, q.build)
			if family == "close-race" && rng.Intn(3) == 0 {
				rt.Wait()
			}
		}
		if family == "close-race" {
			// Close at a PRNG moment relative to the writes, then more writes
			switch rng.Intn(3) {
			case 0:
			case 1:
				rt.Wait()
			case 2:
				time.Sleep(time.Duration(rng.Intn(5)) * time.Millisecond)
			}
			go e.C.Close()
			for i := 0; i < 1+rng.Intn(4); i++ {
				q := genCliReq(rng, id, 100+i, 1000, 100)
				reqs = append(reqs, q)
				calls = append(calls, e.Do(q.Tag, q.build))
			}
			class = "cr"
		}
		rt.Wait()
		streamOf := map[string]uint32{}
		for _, s := range e.RequestsSeen() {
			tag, _ := s.Get("x-vtag")
			streamOf[tag] = s.Stream
		}
		// the valid server stream: all responses, interleaved
		var frames [][]byte
		complete := map[string]int{} // tag -> index in frames of the frame that completes the response
		{
			type ru struct{ i, u int }
			pos := make([]int, len(reqs))
			data := make([][][]byte, len(reqs))
			remaining := 0
			for i, q := range reqs {
				if streamOf[q.Tag] == 0 || failing[q.Tag] {
					continue
				}
				data[i] = q.respData(streamOf[q.Tag])
				remaining += 1 + len(data[i])
				if len(q.RespTrail) > 0 {
					remaining++
				}
			}
			for remaining > 0 {
				var cands []int
				for i, q := range reqs {
					if streamOf[q.Tag] == 0 || failing[q.Tag] {
						continue
					}
					tot := 1 + len(data[i])
					if len(q.RespTrail) > 0 {
						tot++
					}
					if pos[i] < tot {
						cands = append(cands, i)
					}
				}
				i := cands[rng.Intn(len(cands))]
				q := reqs[i]
				sid := streamOf[q.Tag]
				switch {
				case pos[i] == 0:
					frames = append(frames, splitFrames(q.respHeaderBytes(e.P, sid))...)
				case pos[i] <= len(data[i]):
					frames = append(frames, data[i][pos[i]-1])
				default:
					frames = append(frames, splitFrames(q.respTrailerBytes(e.P, sid))...)
				}
				pos[i]++
				remaining--
				tot := 1 + len(data[i])
				if len(q.RespTrail) > 0 {
					tot++
				}
				if pos[i] == tot {
					complete[q.Tag] = len(frames) - 1
				}
			}
		}
		delivered := map[string]bool{} // responses the server delivered completely and unmodified
		sendAll := func(fr [][]byte, upto int, intact func(i int) bool) {
			e.P.Write(rt.Concat(fr))
			for tag, idx := range complete {
				ok := idx < upto
				for i := 0; ok && i <= idx; i++ {
					ok = intact(i)
				}
				delivered[tag] = ok
			}
		}
		switch family {
		case "cut":
			stream := rt.Concat(frames)
			cut := rng.Intn(len(stream) + 1)
			replay["cut"] = cut
			class = fmt.Sprintf("cut%%9=%d", cut%9)
			e.P.Write(stream[:cut])
			off := 0
			for i, f := range frames {
				off += len(f)
				for tag, idx := range complete {
					if idx == i {
						delivered[tag] = off <= cut
					}
				}
			}
		case "mutate":
			fr := append([][]byte{}, frames...)
			if len(fr) == 0 {
				break
			}
			i := rng.Intn(len(fr))
			op := rng.Intn(9)
			class = fmt.Sprintf("m%d", op)
			switch op {
			case 0:
				c := append([]byte{}, fr[i]...)
				c[3] = byte(rng.Intn(12))
				fr[i] = c
			case 1:
				c := append([]byte{}, fr[i]...)
				c[4] ^= 1 << uint(rng.Intn(8))
				fr[i] = c
			case 2:
				c := append([]byte{}, fr[i]...)
				c[2] += byte(1 + rng.Intn(3))
				fr[i] = c
			case 3:
				c := append([]byte{}, fr[i]...)
				c[8] = []byte{0, 2, 99}[rng.Intn(3)]
				c[5], c[6], c[7] = 0, 0, 0
				fr[i] = c
			case 4:
				c := append([]byte{}, fr[i]...)
				if len(c) > 9 {
					c[9+rng.Intn(len(c)-9)] ^= 1 << uint(rng.Intn(8))
				}
				fr[i] = c
			case 5:
				fr = append(fr[:i+1], fr[i:]...)
			case 6:
				fr = append(fr[:i], fr[i+1:]...)
			case 7:
				if i+1 < len(fr) {
					fr[i], fr[i+1] = fr[i+1], fr[i]
				}
			case 8:
				c := append([]byte{}, fr[i]...)
				if c[2] > 0 {
					c[2]--
				}
				fr[i] = c
			}
			e.P.Write(rt.Concat(fr))
			// a mutated stream delivers nothing "unmodified" for certain: judge only the safety rules
			for tag := range complete {
				delivered[tag] = false
			}
			replay["mutation"] = op
		case "adversary":
			kind := rng.Intn(20)
			if silence {
				kind = 99
			}
			undefinedFlags := false
			class = fmt.Sprintf("a%d", kind)
			anyStream := uint32(1)
			for _, s := range streamOf {
				anyStream = s
			}
			switch kind {
			case 0:
				var out []byte
				for _, s := range streamOf {
					out = append(out, rt.RstStream(s, uint32(rng.Intn(15)))...)
				}
				e.P.Write(out)
			case 1:
				e.P.Write(rt.GoAway([]uint32{0, anyStream, 1<<31 - 1, anyStream - 2}[rng.Intn(4)], uint32(rng.Intn(14)), "bye"))
			case 2:
				e.P.Write(wire.Frame(nil, wire.TData, 0, anyStream, make([]byte, 16385+rng.Intn(70000)), -1))
			case 3:
				g := make([]byte, 1+rng.Intn(200))
				rng.Read(g)
				e.P.Write(g)
			case 4:
				e.P.Write(rt.Concat(rt.HeaderFrames(uint32(101+2*rng.Intn(50)), e.P.EncodeBlock([]F{{Name: ":status", Value: "200"}}, nil), nil, -1, nil, true)))
			case 5:
				e.P.Write(wire.Frame(nil, wire.TPushPromise, wire.FEndHeaders, anyStream, append(wire.U32(2), 0x88), -1))
			case 6:
				e.P.Write(rt.WindowUpdate([]uint32{0, anyStream}[rng.Intn(2)], 0))
			case 7:
				e.P.Write(append(rt.WindowUpdate(0, 1<<31-1), rt.WindowUpdate(anyStream, 1<<31-1)...))
			case 8:
				var out []byte
				for i := 0; i < 200+rng.Intn(2000); i++ {
					out = append(out, rt.SettingsFrame(wire.Setting{ID: uint16(1 + rng.Intn(6)), Val: uint32(16384 + rng.Intn(1000))})...)
				}
				e.P.Write(out)
			case 9:
				e.P.Write(rt.SettingsFrame([]wire.Setting{{ID: 2, Val: 7}, {ID: 4, Val: 1 << 31}, {ID: 5, Val: 100}, {ID: 5, Val: 1 << 24}}[rng.Intn(4)]))
			case 10:
				out := wire.Frame(nil, wire.THeaders, 0, anyStream, []byte{0x88}, -1)
				if rng.Intn(2) == 0 {
					// a header block that never ends, in full-size fragments: past any bound a client can put on what it buffers
					// (80-200 frames of 16 KiB, 1.3-3.2 MB)
					frag := e.P.EncodeBlock([]F{{Name: "x-flood", Value: strings.Repeat("v", 16000)}}, []hpackref.Choice{{Rep: hpackref.RepWithout}})
					for i := 0; i < 80+rng.Intn(120); i++ {
						out = append(out, wire.Frame(nil, wire.TContinuation, 0, anyStream, frag, -1)...)
					}
					class += "/large"
				} else {
					for i := 0; i < 500+rng.Intn(3000); i++ {
						out = append(out, wire.Frame(nil, wire.TContinuation, 0, anyStream, e.P.EncodeBlock([]F{{Name: "x-flood", Value: "v"}}, nil), -1)...)
					}
				}
				e.P.Write(out)
			case 11:
				e.P.Write(wire.Frame(nil, wire.TContinuation, wire.FEndHeaders, anyStream, []byte{0x88}, -1))
			case 12:
				e.P.Write(wire.Frame(nil, wire.THeaders, wire.FEndHeaders|wire.FEndStream, anyStream, []byte{0xff, 0xff, 0xff, 0xff, 0xff, 0xff, 0xff, 0xff, 0xff, 0xff, 0xff, 0x01}, -1))
			case 19:
				// full duplex: one more request uploads from a reader that has nothing to give yet, and the server is already
				// answering it - headers and 150-400 small DATA frames, more than the client's reply queue holds, each of which
				// earns the stream credit. Then the reader delivers, the server ends the response: everything is resolved.
				gr := &gatedReader{gate: make(chan struct{}), b: make([]byte, 3000)}
				dq := genCliReq(rng, id, 300, 0, 0)
				dq.Method = "POST"
				dc := e.Do(dq.Tag, func(req *fasthttp.Request) {
					dq.build(req)
					req.Header.SetMethod("POST")
					req.SetBodyStream(gr, -1)
				})
				rt.Wait()
				var dsid uint32
				for _, s := range e.RequestsSeen() {
					if tag, _ := s.Get("x-vtag"); tag == dq.Tag {
						dsid = s.Stream
					}
				}
				if dsid != 0 {
					out := rt.Concat(rt.HeaderFrames(dsid, e.P.EncodeBlock([]F{{Name: ":status", Value: "200"}}, nil), nil, -1, nil, false))
					nfr := 150 + rng.Intn(250)
					for i := 0; i < nfr; i++ {
						out = append(out, wire.Frame(nil, wire.TData, 0, dsid, []byte("echo-chunk"), -1)...)
					}
					e.P.Write(out)
					rt.Wait()
					close(gr.gate)
					rt.Wait()
					e.P.Write(append(rt.WindowUpdate(dsid, 1<<20), wire.Frame(nil, wire.TData, wire.FEndStream, dsid, []byte("done"), -1)...))
					rt.Wait()
					if done, err, _ := dc.Outcome(); !done {
						fail("request-stranded", fmt.Sprintf("family adversary/a19: the full-duplex request %s (stream %d) is unresolved although the server has completed its response (%d DATA frames while the request body reader was waiting, then END_STREAM) and the client is quiescent", dq.Tag, dsid, nfr))
					} else if err != nil {
						r.Inc("full_duplex_requests_failed", 1)
					} else {
						r.Inc("full_duplex_requests_answered", 1)
					}
					replay["full_duplex_data_frames"] = nfr
				}
			case 18:
				// a response that is cut short by RST_STREAM(NO_ERROR): headers (content-length 10), five octets of DATA, then the
				// reset. RFC 7540 8.1 lets a server reset with NO_ERROR *after* a complete response; this one is not complete,
				// and half a response is not a response
				var out []byte
				for _, sid := range streamOf {
					blk := e.P.EncodeBlock([]F{{Name: ":status", Value: "200"}, {Name: "content-length", Value: "10"}}, nil)
					out = append(out, rt.Concat(rt.HeaderFrames(sid, blk, nil, -1, nil, false))...)
					out = append(out, wire.Frame(nil, wire.TData, 0, sid, []byte("hello"), -1)...)
					out = append(out, rt.RstStream(sid, 0)...)
				}
				e.P.Write(out)
				rt.Wait()
				for i, c := range calls {
					if i < len(reqs) && streamOf[reqs[i].Tag] != 0 {
						if done, err, _ := c.Outcome(); done && err == nil {
							fail("success-without-complete-response", fmt.Sprintf("family adversary/a18: request %s (stream %d) was reported successful although the server reset the stream (NO_ERROR) after half of the response: headers, 5 of the 10 octets they declare, no END_STREAM", reqs[i].Tag, streamOf[reqs[i].Tag]))
						}
					}
				}
			case 16, 17:
				// a response whose header block is not valid HPACK although every field in it decodes: a dynamic table size update
				// after a field (16) or as the last thing in the block (17), RFC 7541 4.2. It is no response at all.
				blk := e.P.EncodeBlock([]F{{Name: ":status", Value: "200"}, {Name: "x-rtag", Value: "undecodable"}}, nil)
				blk = hpackref.AppendInt(blk, 0x20, 5, uint64([]int{0, 100, 4096}[rng.Intn(3)]))
				if kind == 16 {
					blk = append(blk, e.P.EncodeBlock([]F{{Name: "x-after", Value: "1"}}, nil)...)
				}
				e.P.Write(rt.Concat(rt.HeaderFrames(anyStream, blk, nil, -1, nil, true)))
				rt.Wait()
				for i, c := range calls {
					if i < len(reqs) && streamOf[reqs[i].Tag] == anyStream {
						if done, err, _ := c.Outcome(); done && err == nil {
							fail("success-from-invalid-header-block", fmt.Sprintf("family adversary/a%d: request %s (stream %d) was reported successful although the header block the server sent for it is not valid HPACK (a table size update %s)", kind, reqs[i].Tag, anyStream, map[int]string{16: "after a field", 17: "at the end of the block"}[kind]))
						}
					}
				}
			case 13:
				e.P.Write(wire.Frame(nil, wire.TPing, 0, 0, make([]byte, 7), -1))
			case 14, 15:
				// frames carrying flag bits that mean nothing for their type (the END_STREAM / END_HEADERS positions on
				// WINDOW_UPDATE and PRIORITY): they must be ignored (RFC 7540 4.1), in particular they end no response
				var out []byte
				for _, s := range streamOf {
					b := rt.WindowUpdate(s, 100)
					if kind == 15 {
						b = rt.Priority(s, 0, false, 10)
					}
					b[4] |= 0x1 | 0x4
					out = append(out, b...)
				}
				e.P.Write(out)
				rt.Wait()
				undefinedFlags = true
				for i, c := range calls {
					if i >= len(reqs) {
						break
					}
					if done, err, _ := c.Outcome(); done && err == nil && streamOf[reqs[i].Tag] != 0 {
						fail("success-without-response", fmt.Sprintf("family adversary/a%d: request %s (stream %d) was reported successful after a %s frame with undefined flag bits, although the server has not sent a single response frame", kind, reqs[i].Tag, streamOf[reqs[i].Tag], map[int]string{14: "WINDOW_UPDATE", 15: "PRIORITY"}[kind]))
					}
				}
			case 99:
				time.Sleep(25 * time.Second)
			}
			_ = undefinedFlags
			if rng.Intn(2) == 0 && kind != 99 {
				// the valid responses still follow
				sendAll(frames, len(frames), func(int) bool { return false })
				for tag := range complete {
					delivered[tag] = false
				}
			}
		case "early":
			// RFC 7540 8.1: a server may answer, completely, before the request body has been sent (and may
			// then reset the stream with NO_ERROR); here the rest of the body cannot even be sent, the window is shut.
			kind := rng.Intn(4)
			class = fmt.Sprintf("e%d/w%d", kind, earlyWindow)
			replay["early_kind"], replay["server_window"] = kind, earlyWindow
			var rsts, grants []byte
			for _, s := range streamOf {
				rsts = append(rsts, rt.RstStream(s, uint32([]int{0, 0, 5, 7, 8}[rng.Intn(5)]))...)
				grants = append(grants, rt.WindowUpdate(s, 1<<20)...)
			}
			switch kind {
			case 0: // complete responses, nothing else
				sendAll(frames, len(frames), func(int) bool { return true })
			case 1: // complete responses, then RST_STREAM
				sendAll(frames, len(frames), func(int) bool { return true })
				rt.Wait()
				e.P.Write(rsts)
			case 2: // RST_STREAM only
				e.P.Write(rsts)
			case 3: // complete responses, then the window opens after all
				sendAll(frames, len(frames), func(int) bool { return true })
				rt.Wait()
				e.P.Write(grants)
			}
			r.Inc("early_answers_to_blocked_uploads", int64(len(streamOf)))
		case "body-error":
			// a client-side fault in the middle of an upload: the body reader of some requests fails on the first read, inside
			// the first frame, or after the server's window was opened again. The server answers every other request completely
			// and never answers the failed ones. The failed ones must never be called successful, everything must be resolved in
			// the end, and the other callers must get their responses whatever became of the failed uploads.
			class = fmt.Sprintf("be/w%d", earlyWindow)
			replay["server_window"] = earlyWindow
			var grants []byte
			for _, s := range streamOf {
				grants = append(grants, rt.WindowUpdate(s, 1<<20)...)
			}
			if rng.Intn(2) == 0 {
				e.P.Write(grants)
				rt.Wait()
				sendAll(frames, len(frames), func(int) bool { return true })
			} else {
				sendAll(frames, len(frames), func(int) bool { return true })
				rt.Wait()
				e.P.Write(grants)
			}
			rt.Wait()
			for i, q := range reqs {
				if !failing[q.Tag] {
					continue
				}
				if done, _, _ := calls[i].Outcome(); done {
					r.Inc("failed_uploads_resolved_while_the_connection_lives", 1)
				} else {
					r.Inc("failed_uploads_unresolved_until_the_connection_ends", 1)
				}
				rst := false
				for _, f := range e.P.Frames() {
					rst = rst || (f.Type == wire.TRstStream && f.Stream == streamOf[q.Tag])
				}
				if rst {
					r.Inc("failed_uploads_reset_by_the_client", 1)
				}
			}
		case "writefault", "close-race":
			sendAll(frames, len(frames), func(int) bool { return true })
			if family == "close-race" || true {
				for tag := range complete {
					delivered[tag] = false // Close / a failing transport may legitimately beat the response
				}
			}
		}
		rt.Wait()
		switch ending {
		case 0:
			e.PeerConn.Close()
		case 1:
			e.PeerConn.Reset()
		case 2:
			e.C.Close()
		}
		rt.Wait()
		time.Sleep(30 * time.Second)
		rt.Wait()
		for i, q := range reqs {
			c := calls[i]
			done, err, _ := c.Outcome()
			outs := c.Outcomes()
			if !done {
				fail("request-stranded", fmt.Sprintf("family %s/%s: request %s was never resolved although the connection is gone and 30 virtual seconds have passed (stream %d)", family, class, q.Tag, streamOf[q.Tag]))
				continue
			}
			sawNil, sawErr := false, false
			for _, o := range outs {
				if o == nil {
					sawNil = true
				} else {
					sawErr = true
				}
			}
			if sawNil && sawErr {
				fail("contradicting-outcomes", fmt.Sprintf("family %s/%s: request %s was resolved with both a nil and an error: %v", family, class, q.Tag, outs))
			}
			if len(outs) > 1 && !(sawNil && sawErr) {
				// "exactly once": a caller that goes on listening on Ctx.Err hears one outcome, not the same one again
				fail("resolved-more-than-once", fmt.Sprintf("family %s/%s: request %s (stream %d) was resolved %d times: %v", family, class, q.Tag, streamOf[q.Tag], len(outs), outs))
			}
			if err == nil && family != "mutate" && !(family == "adversary") {
				if d := q.checkDelivered(c); d != "" {
					fail("success-with-wrong-response", fmt.Sprintf("family %s/%s: request %s reported success but %s", family, class, q.Tag, d))
				}
				if family == "cut" && !delivered[q.Tag] {
					fail("success-without-complete-response", fmt.Sprintf("family cut: request %s reported success but the server stream was cut before its response was complete", q.Tag))
				}
			}
			if family == "body-error" {
				switch {
				case failing[q.Tag] && err == nil:
					fail("success-without-response", fmt.Sprintf("family body-error/%s: request %s (stream %d) was reported successful although its body reader failed and the server never answered it", class, q.Tag, streamOf[q.Tag]))
				case !failing[q.Tag] && delivered[q.Tag] && err != nil:
					fail("complete-response-reported-as-error", fmt.Sprintf("family body-error/%s: request %s (stream %d) got its complete response from the server, yet the caller was told %v; the only thing that went wrong on this connection is another request's body reader", class, q.Tag, streamOf[q.Tag], err))
				}
			}
			if family == "early" && delivered[q.Tag] && err != nil {
				r.Inc("early_complete_response_reported_as_error", 1)
			}
			if family == "cut" && delivered[q.Tag] && err != nil && ending != 1 {
				r.Inc("complete_response_reported_as_error", 1)
			}
			var re runtime.Error
			if err != nil && errors.As(err, &re) {
				fail("panic-surfaced", fmt.Sprintf("request %s was resolved with a runtime panic: %v", q.Tag, err))
			}
		}
		if le := e.C.LastErr(); le != nil {
			var re runtime.Error
			if errors.As(le, &re) || strings.Contains(le.Error(), "runtime error") || strings.Contains(le.Error(), "index out of range") || strings.Contains(le.Error(), "nil pointer") {
				fail("panic-surfaced", "the connection's LastErr is a recovered panic: "+le.Error())
			}
		}
		if ending == 2 {
			// Close was called 30 virtual seconds ago and the server is still connected and silent: the connection's
			// own goroutines must be gone without the peer's help (Finish, below, disconnects the peer)
			if left := rt.GoroutinesOf(id, "github.com/dgrr/http2.(*Conn)"); len(left) > 0 {
				fail("goroutine-leak-after-close", fmt.Sprintf("family %s/%s: %d goroutine(s) of the connection are still alive 30 virtual seconds after Close, while the server is connected and silent:\n%s", family, class, len(left), strings.Join(left, "\n")))
			}
		}
		leaked := e.Finish()
		if len(leaked) > 0 {
			fail("goroutine-leak", fmt.Sprintf("family %s/%s: %d goroutine(s) of the connection are still alive after Close and disconnect:\n%s", family, class, len(leaked), strings.Join(leaked, "\n")))
		}
		r.Inc("requests", int64(len(reqs)))
	})
	switch {
	case res.TimedOut && len(res.MutexStuck) > 0:
		fail("deadlock", "the bubble never became quiescent and these goroutines of the connection were waiting for a mutex when the watchdog fired:\n"+strings.Join(res.MutexStuck, "\n"))
	case res.TimedOut:
		r.Inconclusive("real-time watchdog expired inside a bubble")
	case res.Panic != "":
		fail("panic", "panic on the scenario goroutine: "+res.Panic+"\n"+res.PanicStack)
	case res.Deadlock:
		fail("goroutine-stuck-for-ever", "the bubble ended with goroutines that can never run again (synctest deadlock)")
	}
	r.Mark("families", family+"/"+class)
	r.Eval(vf.Hash(family, class, min(k, 8), ending), true)
	if r.WantSample() {
		r.Sample(replay)
	}
}

var _ = fasthttp.StatusOK

// c12Handshake: whatever a server sends, or does not send, instead of its connection preface: Handshake returns (an
// error or nil) unless the server is silent, a silent server is ended by Close, nothing panics, requests handed to
// the connection afterwards are resolved, and no goroutine stays behind.
func c12Handshake(r *vf.Run, t *testing.T, id string, rng *rand.Rand) {
	kind := []string{"eof", "garbage", "cut-settings", "other-frame-first", "invalid-setting", "ack-first", "oversized-settings", "settings-on-stream-1", "silence", "settings-then-eof", "settings-then-garbage"}[rng.Intn(11)]
	replay := map[string]any{"family": "handshake", "kind": kind}
	failed := false
	fail := func(rule, detail string) {
		if !failed {
			r.Fail("C12."+rule, id, detail, nil, replay)
		}
		failed = true
	}
	res := rt.RunBubble(t, id, 25*time.Second, func() {
		sut, peer := fakeconn.Pair(1<<20, 1<<20)
		var pre []byte
		switch kind {
		case "garbage":
			pre = make([]byte, 1+rng.Intn(300))
			rng.Read(pre)
		case "cut-settings":
			full := rt.SettingsFrame(wire.Setting{ID: 3, Val: 100}, wire.Setting{ID: 4, Val: 65535})
			pre = full[:rng.Intn(len(full))]
		case "other-frame-first":
			pre = [][]byte{rt.Ping(false, "firstfrm"), rt.WindowUpdate(0, 100), rt.GoAway(0, 0, "no"), wire.Frame(nil, wire.THeaders, wire.FEndHeaders|wire.FEndStream, 1, []byte{0x88}, -1), wire.Frame(nil, 0x42, 0, 0, []byte("ext"), -1)}[rng.Intn(5)]
		case "invalid-setting":
			pre = rt.SettingsFrame([]wire.Setting{{ID: 2, Val: 2}, {ID: 4, Val: 1 << 31}, {ID: 5, Val: 100}, {ID: 5, Val: 1 << 24}}[rng.Intn(4)])
		case "ack-first":
			pre = rt.SettingsAck()
		case "oversized-settings":
			var ss []wire.Setting
			for i := 0; i < 3000+rng.Intn(3000); i++ {
				ss = append(ss, wire.Setting{ID: uint16(100 + i%50), Val: uint32(i)})
			}
			pre = rt.SettingsFrame(ss...)
		case "settings-on-stream-1":
			pre = wire.Frame(nil, wire.TSettings, 0, 1, nil, -1)
		case "settings-then-eof", "settings-then-garbage":
			pre = rt.SettingsFrame(wire.Setting{ID: 3, Val: 100})
			if kind == "settings-then-garbage" {
				g := make([]byte, 1+rng.Intn(100))
				rng.Read(g)
				pre = append(pre, g...)
			}
		}
		peer.Write(pre)
		if kind != "silence" && kind != "settings-then-garbage" && rng.Intn(2) == 0 || kind == "eof" || kind == "settings-then-eof" || kind == "cut-settings" {
			peer.CloseWrite()
		}
		go func() { // the server side drains whatever the client writes
			buf := make([]byte, 4096)
			for {
				if _, err := peer.Read(buf); err != nil {
					return
				}
			}
		}()
		c := http2.NewConn(sut, http2.ConnOpts{PingInterval: time.Hour})
		var hsDone atomic.Bool
		var hsErr error
		go func() { hsErr = c.Handshake(); hsDone.Store(true) }()
		rt.Wait()
		time.Sleep(time.Second)
		rt.Wait()
		if hsDone.Load() && kind == "silence" && hsErr == nil {
			fail("handshake-without-server-preface", "Handshake reported success although the server has not sent a byte")
		}
		if !hsDone.Load() {
			// the client is still waiting for (the rest of) a frame, which is its right as long as the server stays
			// connected: Close must end the wait
			r.Inc("handshakes_ended_by_close", 1)
			c.Close()
			rt.Wait()
			time.Sleep(time.Second)
			rt.Wait()
		}
		if !hsDone.Load() {
			fail("handshake-never-returns", fmt.Sprintf("kind %s: Handshake has not returned although the connection was closed a virtual second ago", kind))
		}
		// whatever Handshake said, a request handed to the connection now must be resolved
		req, resp := &fasthttp.Request{}, &fasthttp.Response{}
		req.SetRequestURI("https://h.example/after-handshake")
		ctx := &http2.Ctx{Request: req, Response: resp, Err: make(chan error, 1)}
		var got atomic.Bool
		go func() { c.Write(ctx); <-ctx.Err; got.Store(true) }()
		rt.Wait()
		peer.Close()
		rt.Wait()
		time.Sleep(5 * time.Second)
		rt.Wait()
		c.Close()
		rt.Wait()
		time.Sleep(2 * time.Second)
		rt.Wait()
		if hsDone.Load() && hsErr == nil && !got.Load() {
			fail("request-stranded", fmt.Sprintf("kind %s: Handshake succeeded, the server then disconnected and the connection was closed, but the request handed to it was never resolved", kind))
		}
		if left := rt.GoroutinesOf(id, "github.com/dgrr/http2.(*Conn)"); len(left) > 0 && hsDone.Load() && hsErr == nil {
			fail("goroutine-leak", fmt.Sprintf("kind %s: goroutines of the connection are left after disconnect and Close:\n%s", kind, strings.Join(left, "\n")))
		}
		r.Mark("handshake_outcomes", fmt.Sprintf("%s/err=%v", kind, hsErr != nil))
	})
	switch {
	case res.TimedOut && len(res.MutexStuck) > 0:
		fail("deadlock", "handshake family: goroutines waiting for a mutex when the watchdog fired:\n"+strings.Join(res.MutexStuck, "\n"))
	case res.TimedOut:
		r.Inconclusive("real-time watchdog expired inside a bubble")
	case res.Panic != "":
		fail("panic", res.Panic+"\n"+res.PanicStack)
	}
	r.Mark("families", "handshake/"+kind)
	r.Eval(vf.Hash("handshake", kind), true)
	if r.WantSample() {
		r.Sample(replay)
	}
}
