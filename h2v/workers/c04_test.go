package workers

import (
	"fmt"
	"testing"

	http2 "github.com/dgrr/http2"
	"golang.org/x/net/http2/hpack"

	"h2v/hpackref"
	"h2v/vf"
)

type c04Op struct {
	// SetMax >= 0: peer advertised a new SETTINGS_HEADER_TABLE_SIZE before this block
	SetMax int64
	// SetMax2 >= 0: a second change before the same block (lower-then-raise)
	SetMax2 int64
	// More: further changes before the same block
	More []int64
	Fields []F
	Store  []bool
}

// sutSensitive returns a HeaderField marked sensitive the only public way there is:
// by decoding a never-indexed literal (the proxy use case).
func sutSensitive(name, value string) (*http2.HeaderField, error) {
	hp := http2.AcquireHPACK()
	defer http2.ReleaseHPACK(hp)
	b := hpackref.AppendInt(nil, 0x10, 4, 0)
	b = hpackref.AppendString(b, name, false)
	b = hpackref.AppendString(b, value, false)
	hf := http2.AcquireHeaderField()
	rest, err := hp.Next(hf, b)
	if err != nil || len(rest) != 0 || !hf.IsSensible() || string(hf.KeyBytes()) != name || string(hf.ValueBytes()) != value {
		return nil, fmt.Errorf("cannot obtain a sensitive field through the decoder: err=%v rest=%d sensible=%v", err, len(rest), hf.IsSensible())
	}
	return hf, nil
}

func TestC04(t *testing.T) {
	r := vf.Begin(t, "C04")
	defer r.End()
	r.Describe("PRNG connection histories of 1-30 header lists fed to the real encoder (AppendHeader) with random store flags, sensitive fields (obtained by decoding a never-indexed literal), "+
		"DisableCompression / DisableDynamicTable, and SetMaxTableSize schedules (0..65536, lower-then-raise); names/values of any bytes and lengths incl. empty, names ending in NUL, static-table hits (index <16 and >=16), repeats. "+
		"Every emitted block is decoded by x/net and by the strict reference configured with the peer's allowed table size; list, sensitivity, table contents and the size-update obligation are compared after every block. "+
		"Distinct = distinct structural shape (flags, per-field class tuple); every history is non-trivial (>=1 field).",
		"x/net/http2/hpack decoder and h2v/hpackref strict decoder are correct RFC 7541 decoders",
		"a sensitive HeaderField can only be produced by the package's own decoder (no public setter); if that fails the case is inconclusive")

	nh := r.Pick(6000, 400000)
	for i := 0; i < nh; i++ {
		id := fmt.Sprintf("hist/%d", i)
		if !r.Want(i, id) {
			continue
		}
		rng := r.Rand(id)
		disableComp := rng.Intn(4) == 0
		disableDyn := rng.Intn(5) == 0
		nb := 1 + rng.Intn(10)
		if rng.Intn(12) == 0 {
			nb = 1 + rng.Intn(30)
		}
		var ops []c04Op
		var pool []F
		shape := []any{"c04", disableComp, disableDyn}
		for b := 0; b < nb; b++ {
			op := c04Op{SetMax: -1, SetMax2: -1}
			if rng.Intn(5) == 0 {
				op.SetMax = int64([]int{0, 1, 31, 32, 33, 64, 100, 512, 4095, 4096, 4097, 8192, 65536}[rng.Intn(13)])
				shape = append(shape, fmt.Sprintf("M%d", op.SetMax))
				if rng.Intn(4) == 0 {
					op.SetMax2 = int64([]int{0, 64, 4096, 8192}[rng.Intn(4)])
					shape = append(shape, fmt.Sprintf("N%d", op.SetMax2))
					for rng.Intn(2) == 0 && len(op.More) < 3 {
						op.More = append(op.More, int64([]int{0, 20, 30, 64, 70, 100, 2048, 4096, 8192}[rng.Intn(9)]))
						shape = append(shape, fmt.Sprintf("O%d", op.More[len(op.More)-1]))
					}
				}
			}
			nf := 1 + rng.Intn(8)
			for j := 0; j < nf; j++ {
				f := randField(rng, &pool)
				switch rng.Intn(14) {
				case 0:
					f.Name = "00000000" // Huffman form ends in a zero byte
				case 1:
					f.Name = "x-nul\x00"
				case 2:
					f.Name = "cookie"
				case 3:
					f.Name = hpackref.Static[1+rng.Intn(61)].Name
				}
				if len(f.Value) > 3000 {
					f.Value = f.Value[:3000]
				}
				f.Sensitive = rng.Intn(7) == 0
				st := rng.Intn(2) == 0
				op.Fields = append(op.Fields, f)
				op.Store = append(op.Store, st)
				cls := 0
				if f.Sensitive {
					cls = 1
				}
				shape = append(shape, cls*4+b2i(st)*2+b2i(len(f.Value) == 0))
			}
			ops = append(ops, op)
		}
		if r.WantSample() {
			r.Sample(map[string]any{"case": id, "disable_compression": disableComp, "disable_dynamic_table": disableDyn, "blocks": len(ops),
				"first_block": fmtFields(ops[0].Fields), "first_block_store": ops[0].Store, "first_setmax": ops[0].SetMax})
		}
		c04Run(r, id, disableComp, disableDyn, ops)
		r.Eval(vf.Hash(shape...), true)
	}
}

func c04Run(r *vf.Run, id string, disableComp, disableDyn bool, ops []c04Op) {
	hp := http2.AcquireHPACK()
	defer http2.ReleaseHPACK(hp)
	hp.DisableCompression = disableComp
	hp.DisableDynamicTable = disableDyn
	defer func() { hp.DisableDynamicTable = false }()
	xd := hpack.NewDecoder(4096, nil)
	rd := hpackref.NewDec(4096)
	useX := true
	plain := map[string]bool{}
	replay := map[string]any{"disable_compression": disableComp, "disable_dynamic_table": disableDyn, "ops": ops}
	for bi, op := range ops {
		if op.SetMax >= 0 {
			hp.SetMaxTableSize(uint32(op.SetMax))
			xd.SetAllowedMaxDynamicTableSize(uint32(op.SetMax))
			rd.SetAllowed(uint32(op.SetMax))
		}
		if op.SetMax2 >= 0 {
			hp.SetMaxTableSize(uint32(op.SetMax2))
			xd.SetAllowedMaxDynamicTableSize(uint32(op.SetMax2))
			rd.SetAllowed(uint32(op.SetMax2))
		}
		for _, v := range op.More {
			hp.SetMaxTableSize(uint32(v))
			xd.SetAllowedMaxDynamicTableSize(uint32(v))
			rd.SetAllowed(uint32(v))
		}
		var out []byte
		stop := false
		r.Guard("C04.encode-panic", id, nil, replay, func() {
			for j, f := range op.Fields {
				var hf *http2.HeaderField
				if f.Sensitive {
					var err error
					hf, err = sutSensitive(f.Name, f.Value)
					if err != nil {
						r.Inconclusive("cannot build a sensitive field: decoder failed")
						stop = true
						return
					}
				} else {
					hf = http2.AcquireHeaderField()
					hf.SetBytes([]byte(f.Name), []byte(f.Value))
				}
				out = hp.AppendHeader(out, hf, op.Store[j])
				http2.ReleaseHeaderField(hf)
			}
		})
		if stop || out == nil {
			return
		}
		where := fmt.Sprintf("block %d (%d fields, %d bytes, %x…)", bi, len(op.Fields), len(out), out[:min(len(out), 40)])
		rf, rerr := rd.DecodeBlock(out)
		if rerr != nil {
			r.Fail("C04.invalid-block", id, fmt.Sprintf("%s for [%s] store=%v: strict decoder: %v", where, fmtFields(op.Fields), op.Store, rerr), nil, replay)
			return
		}
		if useX {
			xf, xerr := xd.DecodeFull(out)
			if xerr != nil {
				// the two-size-updates quirk of x/net: stop consulting it for this history
				if n, rest, e := hpackref.ReadInt(out, 5); e == nil && out[0]&0xe0 == 0x20 && len(rest) > 0 && rest[0]&0xe0 == 0x20 {
					_ = n
					useX = false
				} else {
					r.Fail("C04.invalid-block", id, fmt.Sprintf("%s for [%s]: x/net decoder: %v", where, fmtFields(op.Fields), xerr), nil, replay)
					return
				}
			} else if !fieldsEq(xnetFields(xf), rf, true) {
				r.Inconclusive("reference decoders disagree on SUT output")
				return
			}
		}
		if !fieldsEq(rf, op.Fields, false) {
			r.Fail("C04.list-mismatch", id, fmt.Sprintf("%s decodes to [%s], the encoder was given [%s]", where, fmtFields(rf), fmtFields(op.Fields)), nil, replay)
			return
		}
		for j, f := range op.Fields {
			if f.Sensitive && !rf[j].Sensitive {
				r.Fail("C04.sensitive-not-never-indexed", id, fmt.Sprintf("%s: sensitive field %q was not emitted as a never-indexed literal", where, f.Name), nil, replay)
				return
			}
		}
		st := sutTable(hp)
		for _, f := range op.Fields {
			if !f.Sensitive {
				plain[f.Name+"\x00=\x00"+f.Value] = true
			}
		}
		for _, f := range op.Fields {
			if !f.Sensitive || plain[f.Name+"\x00=\x00"+f.Value] {
				continue
			}
			for _, e := range st {
				if e.Name == f.Name && e.Value == f.Value {
					r.Fail("C04.sensitive-stored", id, fmt.Sprintf("%s: sensitive field %q (never given as non-sensitive) is in the encoder's dynamic table", where, f.Name), nil, replay)
					return
				}
			}
		}
		if !fieldsEq(st, rd.T.Ents, false) {
			r.Fail("C04.table-desync", id, fmt.Sprintf("after %s the encoder's dynamic table is [%s] but a conforming decoder's is [%s]", where, fmtFields(st), fmtFields(rd.T.Ents)), nil, replay)
			return
		}
		if rd.T.Size > rd.Allowed {
			r.Fail("C04.table-above-peer-limit", id, fmt.Sprintf("after %s the table holds %d bytes, the peer allowed %d", where, rd.T.Size, rd.Allowed), nil, replay)
			return
		}
	}
}
