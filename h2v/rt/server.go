package rt

import (
	"errors"
	"bufio"
	"bytes"
	"fmt"
	"io"
	"strings"
	"sync"
	"sync/atomic"
	"time"

	http2 "github.com/dgrr/http2"
	"github.com/valyala/fasthttp"

	"h2v/fakeconn"
	"h2v/wire"
)

// ReqRec is what the handler saw, read through the fasthttp API.
type ReqRec struct {
	Tag      string
	Seq      int
	Method   string
	URI      string
	Host     string
	Header   [][2]string // names lower-cased, in the order All() yields them
	Body     []byte
	Proto    string
	Running  int // handlers running on this connection at entry (this one included)
	CtxPtr   string
	BodyLen  int
	HdrBytes int // RFC 7540 6.5.2 size of what the handler sees
}

// RespPlan says what the handler does for a tag.
type RespPlan struct {
	Status      int
	Fields      [][2]string
	Body        []byte
	Stream      int // 0 buffered; 1 SetBodyStream with declared size; 2 SetBodyStream with size -1; 3 SetBodyStreamWriter (fasthttp runs the writer on a goroutine of its own)
	ReadChunk   int // body reader hands out at most this many bytes per Read (0: as much as asked)
	EOFWithLast bool
	Gate        chan struct{}
	Sleep       time.Duration
	Panic       bool
	// ReadErrAfter > 0: the body reader (Stream 1 or 2) fails with an error once this many bytes have been handed out
	// (counted from 1: 1 = fails on the first Read) — the handler's side of the response goes wrong mid-way
	ReadErrAfter int
	// WriterGate (Stream 3 only): after its first chunk the stream writer waits for this gate - a producer that has
	// nothing to say for a while (server-sent events, a slow backend)
	WriterGate chan struct{}
}

type chunkReader struct {
	b           []byte
	chunk       int
	eofWithLast bool
	closed      *atomic.Bool
	errAfter    int // > 0: fail once errAfter-1 bytes have been handed out
	given       int
}

// ErrBodyReader is what a response body reader planned to fail returns.
var ErrBodyReader = errors.New("scenario: the response body reader failed")

func (c *chunkReader) Read(p []byte) (int, error) {
	if c.errAfter > 0 && c.given >= c.errAfter-1 {
		return 0, ErrBodyReader
	}
	if len(c.b) == 0 {
		return 0, io.EOF
	}
	n := len(p)
	if c.chunk > 0 && n > c.chunk {
		n = c.chunk
	}
	if c.errAfter > 0 && c.given+n > c.errAfter-1 {
		n = c.errAfter - 1 - c.given
	}
	c.given += n
	n = copy(p[:n], c.b)
	c.b = c.b[n:]
	if len(c.b) == 0 && c.eofWithLast {
		return n, io.EOF
	}
	return n, nil
}

func (c *chunkReader) Close() error {
	if c.closed != nil {
		c.closed.Store(true)
	}
	return nil
}

// Harness is the request handler every server scenario uses.
type Harness struct {
	mu         sync.Mutex
	Recs       []ReqRec
	Plans      map[string]*RespPlan
	Default    *RespPlan
	running    int
	MaxRunning int
	inHandler  map[*fasthttp.RequestCtx]string
	Finished   []string
	// CtxViolations collects request contexts that went back to (or came out of) the pool while a handler held them.
	CtxViolations []string
	gates         []chan struct{}
}

func NewHarness() *Harness {
	return &Harness{Plans: map[string]*RespPlan{}, inHandler: map[*fasthttp.RequestCtx]string{},
		Default: &RespPlan{Status: 200, Body: []byte("ok")}}
}

// SetPlan installs the response plan for a tag (safe while handlers run).
func (h *Harness) SetPlan(tag string, p *RespPlan) {
	h.mu.Lock()
	h.Plans[tag] = p
	h.mu.Unlock()
}

// SetDefault installs the plan used for unknown tags.
func (h *Harness) SetDefault(p *RespPlan) {
	h.mu.Lock()
	h.Default = p
	h.mu.Unlock()
}

// NewGate returns a gate channel that ReleaseAll will close if the scenario does not.
func (h *Harness) NewGate() chan struct{} {
	g := make(chan struct{})
	h.mu.Lock()
	h.gates = append(h.gates, g)
	h.mu.Unlock()
	return g
}

// Open closes a gate once.
func Open(g chan struct{}) {
	defer func() { recover() }()
	close(g)
}

func (h *Harness) ReleaseAll() {
	h.mu.Lock()
	gs := h.gates
	h.mu.Unlock()
	for _, g := range gs {
		Open(g)
	}
}

// PoolEvent is to be called from the pool tracker for "reqctx" objects.
func (h *Harness) PoolEvent(obj any, acquire bool) {
	ctx, ok := obj.(*fasthttp.RequestCtx)
	if !ok {
		return
	}
	h.mu.Lock()
	if tag, busy := h.inHandler[ctx]; busy {
		what := "returned to the pool"
		if acquire {
			what = "handed out again"
		}
		h.CtxViolations = append(h.CtxViolations, fmt.Sprintf("RequestCtx %p %s while the handler of %q is still using it", ctx, what, tag))
	}
	h.mu.Unlock()
}

func (h *Harness) Handle(ctx *fasthttp.RequestCtx) {
	rec := ReqRec{
		Method: string(ctx.Method()),
		URI:    string(ctx.RequestURI()),
		Host:   string(ctx.Host()),
		Body:   append([]byte{}, ctx.Request.Body()...),
		Proto:  string(ctx.Request.Header.Protocol()),
		CtxPtr: fmt.Sprintf("%p", ctx),
	}
	for k, v := range ctx.Request.Header.All() {
		rec.Header = append(rec.Header, [2]string{strings.ToLower(string(k)), string(v)})
		rec.HdrBytes += len(k) + len(v) + 32
	}
	// the pseudo-header fields are part of the header list too (RFC 7540 6.5.2 sizes the list as sent): what the handler can
	// see of them is the method and the request URI (the authority is the Host field counted above)
	rec.HdrBytes += len(":method") + len(rec.Method) + 32 + len(":path") + len(rec.URI) + 32
	rec.BodyLen = len(rec.Body)
	rec.Tag = string(ctx.Request.Header.Peek("x-vtag"))
	if rec.Tag == "" {
		rec.Tag = "untagged:" + rec.Method + " " + rec.URI
	}
	h.mu.Lock()
	h.running++
	if h.running > h.MaxRunning {
		h.MaxRunning = h.running
	}
	rec.Running = h.running
	rec.Seq = len(h.Recs)
	h.Recs = append(h.Recs, rec)
	h.inHandler[ctx] = rec.Tag
	plan := h.Plans[rec.Tag]
	if plan == nil {
		plan = h.Default
	}
	h.mu.Unlock()
	defer func() {
		h.mu.Lock()
		h.running--
		delete(h.inHandler, ctx)
		h.Finished = append(h.Finished, rec.Tag)
		h.mu.Unlock()
	}()
	if plan.Gate != nil {
		<-plan.Gate
	}
	if plan.Sleep > 0 {
		time.Sleep(plan.Sleep)
	}
	if plan.Panic {
		panic("handler panic requested by the scenario")
	}
	ctx.Response.SetStatusCode(plan.Status)
	for _, f := range plan.Fields {
		ctx.Response.Header.Add(f[0], f[1])
	}
	switch plan.Stream {
	case 0:
		ctx.Response.SetBody(plan.Body)
	case 1:
		ctx.Response.SetBodyStream(&chunkReader{b: plan.Body, chunk: plan.ReadChunk, eofWithLast: plan.EOFWithLast, errAfter: plan.ReadErrAfter}, len(plan.Body))
	case 2:
		ctx.Response.SetBodyStream(&chunkReader{b: plan.Body, chunk: plan.ReadChunk, eofWithLast: plan.EOFWithLast, errAfter: plan.ReadErrAfter}, -1)
	case 3:
		body, chunk := plan.Body, plan.ReadChunk
		if chunk <= 0 {
			chunk = 4096
		}
		wg := plan.WriterGate
		ctx.Response.SetBodyStreamWriter(func(w *bufio.Writer) {
			first := true
			for len(body) > 0 {
				n := min(chunk, len(body))
				if _, err := w.Write(body[:n]); err != nil {
					return
				}
				if err := w.Flush(); err != nil {
					return
				}
				body = body[n:]
				if first && wg != nil {
					<-wg
				}
				first = false
			}
		})
	}
}

// Snapshot returns copies of the records.
func (h *Harness) Snapshot() (recs []ReqRec, finished []string, maxRunning int, ctxViol []string) {
	h.mu.Lock()
	defer h.mu.Unlock()
	return append([]ReqRec{}, h.Recs...), append([]string{}, h.Finished...), h.MaxRunning, append([]string{}, h.CtxViolations...)
}

// LogCapture is the fasthttp.Logger handed to the server.
type LogCapture struct {
	mu    sync.Mutex
	Lines []string
}

func (l *LogCapture) Printf(format string, args ...any) {
	l.mu.Lock()
	if len(l.Lines) < 200 {
		s := fmt.Sprintf(format, args...)
		if len(s) > 3000 {
			s = s[:3000]
		}
		l.Lines = append(l.Lines, s)
	}
	l.mu.Unlock()
}

func (l *LogCapture) Snapshot() []string {
	l.mu.Lock()
	defer l.mu.Unlock()
	return append([]string{}, l.Lines...)
}

// Panics returns the log lines that report a (recovered) panic.
func (l *LogCapture) Panics() []string {
	var out []string
	for _, s := range l.Snapshot() {
		if strings.Contains(s, "panicked") || strings.Contains(s, "panic in the handler") {
			out = append(out, s)
		}
	}
	return out
}

type ServerOpts struct {
	MaxConcurrentStreams int
	MaxHeaderListSize    int
	MaxRequestBodySize   int
	ReadTimeout          time.Duration
	IdleTimeout          time.Duration
	PingInterval         time.Duration // 0: disabled (negative is passed to the server)
	BufToPeer            int           // capacity of the SUT -> peer direction (default 4 MiB)
	BufToSUT             int           // capacity of the peer -> SUT direction (default 4 MiB)
	PeerSettings         []wire.Setting
	NoHandshake          bool // do not send preface/SETTINGS automatically
	Debug                bool
}

// ServerEnv is one SUT server connection with its scripted client peer. Create it inside a bubble.
type ServerEnv struct {
	CaseID   string
	H        *Harness
	P        *Peer
	SUTConn  *fakeconn.Conn
	PeerConn *fakeconn.Conn
	Log      *LogCapture
	served   atomic.Bool
	ServeErr error
	// ServerSettings are the parameters of the server's first SETTINGS frame.
	ServerSettings map[uint16]uint32
}

func NewServerEnv(caseID string, o ServerOpts) *ServerEnv {
	if o.BufToPeer == 0 {
		o.BufToPeer = 4 << 20
	}
	if o.BufToSUT == 0 {
		o.BufToSUT = 4 << 20
	}
	e := &ServerEnv{CaseID: caseID, H: NewHarness(), Log: &LogCapture{}}
	e.SUTConn, e.PeerConn = fakeconn.Pair(o.BufToPeer, o.BufToSUT)
	fs := &fasthttp.Server{Handler: e.H.Handle, Logger: e.Log, ReadTimeout: o.ReadTimeout, IdleTimeout: o.IdleTimeout, MaxRequestBodySize: o.MaxRequestBodySize}
	ping := o.PingInterval
	if ping == 0 {
		ping = -1
	}
	srv := http2.ConfigureServer(fs, http2.ServerConfig{PingInterval: ping, MaxConcurrentStreams: o.MaxConcurrentStreams, MaxHeaderListSize: o.MaxHeaderListSize, Debug: o.Debug})
	go func() {
		e.ServeErr = srv.ServeConn(e.SUTConn)
		e.served.Store(true)
	}()
	e.P = NewPeer(e.PeerConn)
	e.P.StartReader()
	if !o.NoHandshake {
		e.P.Write(append([]byte(wire.Preface), SettingsFrame(o.PeerSettings...)...))
		Wait()
		e.ServerSettings = map[uint16]uint32{}
		for _, f := range e.P.Frames() {
			if f.Type == wire.TSettings && !f.Ack {
				for _, s := range f.Settings {
					e.ServerSettings[s.ID] = s.Val
				}
				break
			}
		}
		e.P.Write(SettingsAck())
		Wait()
	}
	return e
}

// Served reports whether ServeConn has returned.
func (e *ServerEnv) Served() bool { return e.served.Load() }

// Finish releases parked handlers, disconnects the peer and gives the server 15 virtual seconds to return.
// It reports whether ServeConn returned and which SUT goroutines of this case are still alive.
func (e *ServerEnv) Finish() (returned bool, leaked []string) {
	e.H.ReleaseAll()
	e.PeerConn.Close()
	e.P.Unpark()
	Wait()
	if !e.Served() {
		time.Sleep(15 * time.Second)
		Wait()
	}
	returned = e.Served()
	for _, g := range GoroutinesOf(e.CaseID, "github.com/dgrr/http2.") {
		leaked = append(leaked, g)
	}
	return returned, leaked
}

// FramesFor returns the received frames of one stream.
func FramesFor(fs []Frame, stream uint32) []Frame {
	var out []Frame
	for _, f := range fs {
		if f.Stream == stream {
			out = append(out, f)
		}
	}
	return out
}

// BodyOf concatenates the DATA payloads of a stream.
func BodyOf(fs []Frame, stream uint32) []byte {
	var b bytes.Buffer
	for _, f := range fs {
		if f.Stream == stream && f.Type == wire.TData {
			b.Write(f.Data)
		}
	}
	return b.Bytes()
}
