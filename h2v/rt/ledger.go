package rt

import (
	"fmt"

	"h2v/wire"
)

// Action is something the authoritative peer did that changes what the sender may send.
type Action struct {
	At     int    // number of frames the peer had received when it sent the action (it only acts at quiescence)
	Kind   string // "wu" | "settings-window" | "settings-maxframe"
	Stream uint32
	Val    int64
	SetSeq int // for settings: ordinal of the SETTINGS frame (0 = handshake)
}

// Ledger replays a received frame log against the peer's actions and reports the first DATA frame that
// exceeds a window (safety), and the strict windows after everything (for the progress check).
type Ledger struct {
	InitWindow int64 // INITIAL_WINDOW_SIZE in force when the streams were opened
	MaxFrame   int64
	Opened     []uint32 // streams opened (all before the first settings change)
}

type LedgerState struct {
	Conn    int64
	Streams map[uint32]int64
	Sent    map[uint32]int64 // DATA payload bytes received per stream
	Ended   map[uint32]int   // END_STREAM count per stream
}

// Replay returns the first safety violation ("" if none) and the final state with every action applied.
// settingsAcksBefore: number of SETTINGS ACK frames that belong to the handshake (already in the log before any action).
func (l *Ledger) Replay(frames []Frame, actions []Action, handshakeAcks int) (string, *LedgerState) {
	st := &LedgerState{Conn: 65535, Streams: map[uint32]int64{}, Sent: map[uint32]int64{}, Ended: map[uint32]int{}}
	for _, id := range l.Opened {
		st.Streams[id] = l.InitWindow
	}
	curInit := l.InitWindow
	maxFrame := l.MaxFrame
	if maxFrame == 0 {
		maxFrame = 16384
	}
	// deltas of settings in sequence order
	type pend struct {
		delta int64
		seq   int
	}
	var pendingNeg []pend
	var pendingFrame []pend // MAX_FRAME_SIZE decreases (delta holds the new value), in sequence order
	frameVals := map[int]int64{} // every MAX_FRAME_SIZE the peer has sent, by SETTINGS ordinal
	for _, a := range actions {
		if a.Kind == "settings-maxframe" {
			frameVals[a.SetSeq] = a.Val
		}
	}
	ai := 0
	acks := 0
	sentSeq := 0
	applyUpTo := func(i int) {
		for ai < len(actions) && actions[ai].At <= i {
			a := actions[ai]
			ai++
			if a.SetSeq > sentSeq {
				sentSeq = a.SetSeq
			}
			switch a.Kind {
			case "wu":
				if a.Stream == 0 {
					st.Conn += a.Val
				} else {
					st.Streams[a.Stream] += a.Val
				}
			case "settings-window":
				delta := a.Val - curInit
				curInit = a.Val
				if delta >= 0 {
					for id := range st.Streams {
						st.Streams[id] += delta
					}
				} else {
					pendingNeg = append(pendingNeg, pend{delta, a.SetSeq})
				}
			case "settings-maxframe":
				if a.Val >= maxFrame {
					maxFrame = a.Val // usable from the moment it was sent
					// an earlier, not yet acknowledged decrease is overtaken: once the sender acknowledges it, it has
					// also seen this one or will apply it next; keeping the larger bound stays on the permissive side
				} else {
					pendingFrame = append(pendingFrame, pend{a.Val, a.SetSeq}) // binds when the sender acknowledges it
				}
			}
		}
	}
	var viol string
	for i, f := range frames {
		applyUpTo(i)
		switch {
		case f.Type == wire.TSettings && f.Ack:
			acks++
			seq := acks - handshakeAcks // this ACK acknowledges SETTINGS number seq (1-based after the handshake)
			rest := pendingNeg[:0]
			for _, p := range pendingNeg {
				if p.seq <= seq {
					for id := range st.Streams {
						st.Streams[id] += p.delta
					}
				} else {
					rest = append(rest, p)
				}
			}
			pendingNeg = rest
			// MAX_FRAME_SIZE: after acknowledging SETTINGS number seq the sender may use the largest value among the
			// one in force at that acknowledgement and every later one already sent (it may have applied those too)
			restF := pendingFrame[:0]
			for _, p := range pendingFrame {
				if p.seq <= seq {
					bound := p.delta
					for q, v := range frameVals {
						if q > p.seq && q <= sentSeq && v > bound {
							bound = v
						}
					}
					if bound < maxFrame {
						maxFrame = bound
					}
				} else {
					restF = append(restF, p)
				}
			}
			pendingFrame = restF
		case f.Type == wire.TData:
			n := int64(f.Len)
			w, known := st.Streams[f.Stream]
			if viol == "" {
				switch {
				case !known:
					viol = fmt.Sprintf("frame #%d: DATA on stream %d which the peer never opened", i, f.Stream)
				case n > w:
					viol = fmt.Sprintf("frame #%d: DATA of %d bytes on stream %d whose window is %d", i, n, f.Stream, w)
				case n > st.Conn:
					viol = fmt.Sprintf("frame #%d: DATA of %d bytes on stream %d with connection window %d", i, n, f.Stream, st.Conn)
				case n > maxFrame:
					viol = fmt.Sprintf("frame #%d: DATA of %d bytes exceeds the peer's MAX_FRAME_SIZE %d", i, n, maxFrame)
				}
			}
			st.Streams[f.Stream] = w - n
			st.Conn -= n
			st.Sent[f.Stream] += int64(len(f.Data))
			if f.EndStream {
				st.Ended[f.Stream]++
			}
		case f.Type == wire.THeaders && f.EndStream:
			st.Ended[f.Stream]++
		}
	}
	applyUpTo(len(frames) + 1<<30)
	for _, p := range pendingNeg { // never acknowledged: at quiescence the strict reading applies it
		for id := range st.Streams {
			st.Streams[id] += p.delta
		}
	}
	return viol, st
}
