package rt

import (
	"bytes"
	"context"
	"fmt"
	"runtime/debug"
	"runtime/pprof"
	"strings"
	"testing"
	"testing/synctest"
	"time"
)

// CaseResult says how a bubble ended.
type CaseResult struct {
	Deadlock   bool // synctest: root returned, blocked goroutines remain (somebody is stuck for ever)
	Panic      string
	PanicStack string
	TimedOut   bool // real-time watchdog: inconclusive, unless MutexStuck explains it
	// MutexStuck: stacks of SUT goroutines of this case that sat in sync.Mutex.Lock when the watchdog fired
	// (a goroutine waiting on a mutex is not durably blocked for synctest, so a self-deadlock shows up like this)
	MutexStuck []string
}

// RunBubble runs f inside a fresh synctest bubble (virtual time, exact quiescence) on a goroutine
// labelled with the case id, under a real-time watchdog.
func RunBubble(t *testing.T, caseID string, watchdog time.Duration, f func()) CaseResult {
	done := make(chan CaseResult, 1)
	go func() {
		var res CaseResult
		defer func() {
			if e := recover(); e != nil {
				msg := fmt.Sprint(e)
				if strings.Contains(msg, "deadlock: main bubble goroutine has exited") {
					res.Deadlock = true
				} else {
					res.Panic = msg
					res.PanicStack = string(debug.Stack())
				}
			}
			done <- res
		}()
		synctest.Test(t, func(t *testing.T) {
			pprof.SetGoroutineLabels(pprof.WithLabels(context.Background(), pprof.Labels("vcase", caseID)))
			f()
		})
	}()
	tm := time.NewTimer(watchdog)
	defer tm.Stop()
	select {
	case r := <-done:
		return r
	case <-tm.C:
		res := CaseResult{TimedOut: true}
		for _, g := range GoroutinesOf(caseID, "github.com/dgrr/http2.") {
			if strings.Contains(g, "sync.(*Mutex).Lock") || strings.Contains(g, "sync.(*RWMutex)") {
				res.MutexStuck = append(res.MutexStuck, g)
			}
		}
		return res
	}
}

// Wait is synctest.Wait: returns when every goroutine of the bubble is durably blocked.
func Wait() { synctest.Wait() }

// GoroutinesOf returns the stacks (aggregated, pprof debug=1 format) of live goroutines that carry the
// case label and mention needle in their stack.
func GoroutinesOf(caseID, needle string) []string {
	var buf bytes.Buffer
	pprof.Lookup("goroutine").WriteTo(&buf, 1)
	var out []string
	for _, blk := range strings.Split(buf.String(), "\n\n") {
		if !strings.Contains(blk, fmt.Sprintf("%q:%q", "vcase", caseID)) {
			continue
		}
		if needle != "" && !strings.Contains(blk, needle) {
			continue
		}
		out = append(out, blk)
	}
	return out
}
