package rt

import (
	"os"
	"bytes"
	"context"
	"fmt"
	"runtime/debug"
	"runtime/pprof"
	"hash/fnv"
	"runtime"
	"strings"
	"sync"
	"sync/atomic"
	"testing"
	"testing/synctest"
	"time"

	"github.com/dgrr/http2"
)

// PerturbShare is the percentage of bubbles (chosen by a hash of the case id, so a replay makes the same
// choice) in which the perturbation points of the library (hook H5) yield or sleep a PRNG number of
// virtual nanoseconds. A sleep in virtual time costs nothing and lets every other goroutine of the
// connection run first, so the library's own loops interleave differently from case to case.
var PerturbShare = 0

var (
	// curSleepers counts the goroutines of the bubble being run that sleep at a perturbation point. It belongs to
	// one installation of the hook: a sleeper stranded in an abandoned bubble (whose clock a goroutine waiting for a
	// mutex has frozen) keeps its own, old counter and cannot disturb later bubbles.
	curSleepers atomic.Pointer[atomic.Int64]
	perturbMu       sync.Mutex
	perturbCases    int
	perturbSleeps   int64
	perturbYields   int64
	perturbSites    = map[string]int64{}
	perturbOrders   = map[uint64]struct{}{}
)

// PerturbStats reports what the perturbation hook did in this process.
func PerturbStats() (cases int, sleeps, yields int64, sites map[string]int64, orders int) {
	perturbMu.Lock()
	defer perturbMu.Unlock()
	m := map[string]int64{}
	for k, v := range perturbSites {
		m[k] = v
	}
	return perturbCases, perturbSleeps, perturbYields, m, len(perturbOrders)
}

func hash64(s string) uint64 {
	h := fnv.New64a()
	h.Write([]byte(s))
	return h.Sum64()
}

func mix64(x uint64) uint64 {
	x ^= x >> 33
	x *= 0xff51afd7ed558ccd
	x ^= x >> 33
	x *= 0xc4ceb9fe1a85ec53
	x ^= x >> 33
	return x
}

// timerSite is the point the server's stream loop passes when its request timer has fired. In a bubble a timer fires
// at exactly its deadline, and the loop asks "is now after the deadline?": with a real clock the answer is always yes,
// with the virtual clock it is no, the timer is re-armed with a delay of 0 and the loop spins at one virtual instant
// for ever. One virtual nanosecond at this point restores what every real clock does.
const timerSite = "srv.loop.reqtimer"

// installTimerSkew installs the minimal hook used by bubbles that are not perturbed.
func installTimerSkew() func() {
	sleepers := new(atomic.Int64)
	curSleepers.Store(sleepers)
	http2.VerifSetPointHook(func(site string) {
		if site == timerSite {
			sleepers.Add(1)
			time.Sleep(time.Nanosecond)
			sleepers.Add(-1)
		}
	})
	return func() {
		http2.VerifSetPointHook(nil)
		curSleepers.Store(nil)
	}
}

// installPerturb installs the hook for one bubble and returns the function that removes it and
// records the order in which the points were passed.
func installPerturb(caseID string) func() {
	seed := hash64("perturb/" + caseID)
	var n atomic.Uint64
	var omu sync.Mutex
	order := fnv.New64a()
	var sleeps, yields int64
	local := map[string]int64{}
	sleepers := new(atomic.Int64)
	curSleepers.Store(sleepers)
	http2.VerifSetPointHook(func(site string) {
		k := n.Add(1)
		h := mix64(seed ^ mix64(k) ^ hash64(site))
		omu.Lock()
		if k <= 64 {
			order.Write([]byte(site))
		}
		local[site]++
		omu.Unlock()
		if strings.HasSuffix(site, ".held") && h%4 >= 2 {
			// the goroutine holds a lock of the library here: if it slept, a goroutine waiting for that sync.Mutex (which is
			// not a durable block) would stop the bubble's clock and the sleep would never end. Yield instead.
			h = h&^3 | 1
		}
		if site == timerSite && h%4 < 2 {
			h = h&^3 | 2 // always at least a nanosecond here, see timerSite
		}
		switch h % 4 {
		case 0:
		case 1:
			atomic.AddInt64(&yields, 1)
			runtime.Gosched()
		default:
			atomic.AddInt64(&sleeps, 1)
			d := time.Duration(1+(h>>8)%50000) * time.Nanosecond
			if os.Getenv("VERIF_DEBUG_POINTS") != "" {
				fmt.Printf("POINT %s %s sleeps %v at %v\n", caseID, site, d, time.Now().UnixNano()%1000000000)
			}
			sleepers.Add(1)
			time.Sleep(d)
			sleepers.Add(-1)
		}
	})
	return func() {
		http2.VerifSetPointHook(nil)
		curSleepers.Store(nil)
		omu.Lock()
		sig := order.Sum64()
		omu.Unlock()
		perturbMu.Lock()
		perturbCases++
		perturbSleeps += atomic.LoadInt64(&sleeps)
		perturbYields += atomic.LoadInt64(&yields)
		omu.Lock()
		for k, v := range local {
			perturbSites[k] += v
		}
		omu.Unlock()
		perturbOrders[sig] = struct{}{}
		perturbMu.Unlock()
	}
}

// CaseResult says how a bubble ended.
type CaseResult struct {
	Deadlock   bool // synctest: root returned, blocked goroutines remain (somebody is stuck for ever)
	Panic      string
	PanicStack string
	TimedOut   bool // real-time watchdog: inconclusive, unless MutexStuck explains it
	// MutexStuck: stacks of SUT goroutines of this case that sat in sync.Mutex.Lock when the watchdog fired
	// (a goroutine waiting on a mutex is not durably blocked for synctest, so a self-deadlock shows up like this)
	MutexStuck []string
	// Others: the remaining goroutines of the case with a library frame, at the same moment (who holds what they wait for)
	Others []string
}

// RunBubble runs f inside a fresh synctest bubble (virtual time, exact quiescence) on a goroutine
// labelled with the case id, under a real-time watchdog.
func RunBubble(t *testing.T, caseID string, watchdog time.Duration, f func()) CaseResult {
	done := make(chan CaseResult, 1)
	if PerturbShare > 0 && int(hash64("share/"+caseID)%100) < PerturbShare {
		defer installPerturb(caseID)()
	} else {
		defer installTimerSkew()()
	}
	go func() {
		var res CaseResult
		defer func() {
			if e := recover(); e != nil {
				msg := fmt.Sprint(e)
				if strings.Contains(msg, "deadlock: main bubble goroutine has exited") {
					res.Deadlock = true
				} else {
					res.Panic = msg
					res.PanicStack = string(debug.Stack())
				}
			}
			done <- res
		}()
		synctest.Test(t, func(t *testing.T) {
			pprof.SetGoroutineLabels(pprof.WithLabels(context.Background(), pprof.Labels("vcase", caseID)))
			f()
		})
	}()
	tm := time.NewTimer(watchdog)
	defer tm.Stop()
	select {
	case r := <-done:
		return r
	case <-tm.C:
		res := CaseResult{TimedOut: true}
		for _, g := range GoroutinesOf(caseID, "github.com/dgrr/http2.") {
			if strings.Contains(g, "sync.(*Mutex).Lock") || strings.Contains(g, "sync.(*RWMutex)") {
				res.MutexStuck = append(res.MutexStuck, g)
			} else {
				res.Others = append(res.Others, g)
			}
		}
		return res
	}
}

// Wait is synctest.Wait: returns when every goroutine of the bubble is durably blocked.
// While a goroutine sleeps at a perturbation point it is durably blocked in the middle of its work, so
// Wait lets virtual time pass until no such sleeper is left (bounded, in case a sleeper belongs to an
// abandoned bubble whose clock no longer moves).
func Wait() {
	for {
		synctest.Wait()
		c := curSleepers.Load()
		if c == nil || c.Load() <= 0 {
			return
		}
		time.Sleep(60 * time.Microsecond)
	}
}

// GoroutinesOf returns the stacks (aggregated, pprof debug=1 format) of live goroutines that carry the
// case label and mention needle in their stack.
func GoroutinesOf(caseID, needle string) []string {
	var buf bytes.Buffer
	pprof.Lookup("goroutine").WriteTo(&buf, 1)
	var out []string
	for _, blk := range strings.Split(buf.String(), "\n\n") {
		if !strings.Contains(blk, fmt.Sprintf("%q:%q", "vcase", caseID)) {
			continue
		}
		if needle != "" && !strings.Contains(blk, needle) {
			continue
		}
		out = append(out, blk)
	}
	return out
}
