package rt

import (
	"fmt"
	"sync"
	"time"

	http2 "github.com/dgrr/http2"
	"github.com/valyala/fasthttp"

	"h2v/fakeconn"
	"h2v/wire"
)

type ClientOpts struct {
	PeerSettings  []wire.Setting // the scripted server's SETTINGS
	PingInterval  time.Duration  // 0: one hour (pings out of the way)
	NoPingCheck   bool
	BufToPeer     int
	BufToSUT      int
	NoAutoPingAck bool
	NoSettingsAck bool // the scripted server does not acknowledge the client's SETTINGS
}

// Call is one request handed to the connection, with what its caller observed.
type Call struct {
	Tag      string
	Req      *fasthttp.Request
	Res      *fasthttp.Response
	Ctx      *http2.Ctx
	mu       sync.Mutex
	done     bool
	err      error
	outcomes []error
	DoneAt   time.Time // virtual time of the first outcome
}

func (c *Call) Outcome() (done bool, err error, n int) {
	c.mu.Lock()
	defer c.mu.Unlock()
	return c.done, c.err, len(c.outcomes)
}

func (c *Call) Outcomes() []error {
	c.mu.Lock()
	defer c.mu.Unlock()
	return append([]error{}, c.outcomes...)
}

// ClientEnv is one SUT client connection talking to a scripted server-role peer. Create it inside a bubble.
type ClientEnv struct {
	CaseID       string
	C            *http2.Conn
	P            *Peer
	SUTConn      *fakeconn.Conn
	PeerConn     *fakeconn.Conn
	HandshakeErr error
	ClientSettings map[uint16]uint32
	mu           sync.Mutex
	Calls        []*Call
	stop         chan struct{}
	Disconnected int
}

func NewClientEnv(caseID string, o ClientOpts) *ClientEnv {
	if o.BufToPeer == 0 {
		o.BufToPeer = 4 << 20
	}
	if o.BufToSUT == 0 {
		o.BufToSUT = 4 << 20
	}
	e := &ClientEnv{CaseID: caseID, stop: make(chan struct{})}
	e.SUTConn, e.PeerConn = fakeconn.Pair(o.BufToPeer, o.BufToSUT)
	e.P = NewPeer(e.PeerConn)
	e.P.ExpectPreface = true
	if !o.NoAutoPingAck {
		e.P.OnFrame = func(f Frame) {
			if f.Type == wire.TPing && !f.Ack {
				e.P.Write(wire.Frame(nil, wire.TPing, wire.FAck, 0, f.Ping[:], -1))
			}
		}
	}
	e.P.StartReader()
	// the server's SETTINGS are on the wire before the client looks for them
	e.P.Write(SettingsFrame(o.PeerSettings...))
	ping := o.PingInterval
	if ping == 0 {
		ping = time.Hour
	}
	e.C = http2.NewConn(e.SUTConn, http2.ConnOpts{PingInterval: ping, DisablePingChecking: o.NoPingCheck, OnDisconnect: func(*http2.Conn) {
		e.mu.Lock()
		e.Disconnected++
		e.mu.Unlock()
	}})
	e.HandshakeErr = e.C.Handshake()
	Wait()
	e.ClientSettings = map[uint16]uint32{}
	for _, f := range e.P.Frames() {
		if f.Type == wire.TSettings && !f.Ack {
			for _, s := range f.Settings {
				e.ClientSettings[s.ID] = s.Val
			}
			break
		}
	}
	if !o.NoSettingsAck {
		e.P.Write(SettingsAck())
		Wait()
	}
	return e
}

// Do hands a request to the connection on a caller goroutine of its own and records every outcome it is given.
func (e *ClientEnv) Do(tag string, build func(req *fasthttp.Request)) *Call {
	c := &Call{Tag: tag, Req: &fasthttp.Request{}, Res: &fasthttp.Response{}}
	build(c.Req)
	c.Ctx = &http2.Ctx{Request: c.Req, Response: c.Res, Err: make(chan error, 1)}
	e.mu.Lock()
	e.Calls = append(e.Calls, c)
	e.mu.Unlock()
	go func() {
		e.C.Write(c.Ctx)
		for {
			select {
			case err := <-c.Ctx.Err:
				c.mu.Lock()
				if !c.done {
					c.done, c.err, c.DoneAt = true, err, time.Now()
				}
				c.outcomes = append(c.outcomes, err)
				c.mu.Unlock()
			case <-e.stop:
				return
			}
		}
	}()
	return c
}

// Finish closes the connection from the caller side, disconnects the peer and reports leftover SUT goroutines.
func (e *ClientEnv) Finish() (leaked []string) {
	e.C.Close()
	e.PeerConn.Close()
	e.P.Unpark()
	Wait()
	time.Sleep(5 * time.Second)
	Wait()
	close(e.stop)
	Wait()
	return GoroutinesOf(e.CaseID, "github.com/dgrr/http2.")
}

// RequestsSeen groups what the scripted server received by stream, in arrival order of the HEADERS.
type SeenRequest struct {
	Stream    uint32
	Fields    []Field2
	Body      []byte
	EndStream int
	HPACKErr  string
	Order     int
	RstCode   int64 // -1: not reset by the client
}

type Field2 struct{ Name, Value string }

func (e *ClientEnv) RequestsSeen() []*SeenRequest { return SeenOn(e.P) }

// SeenOn groups what a server-role peer received by stream.
func SeenOn(p *Peer) []*SeenRequest {
	var out []*SeenRequest
	by := map[uint32]*SeenRequest{}
	for _, f := range p.Frames() {
		if f.Stream == 0 {
			continue
		}
		s := by[f.Stream]
		if s == nil {
			if f.Type != wire.THeaders {
				continue
			}
			s = &SeenRequest{Stream: f.Stream, Order: len(out), RstCode: -1}
			by[f.Stream] = s
			out = append(out, s)
		}
		switch f.Type {
		case wire.THeaders, wire.TContinuation:
			if f.BlockDone {
				s.HPACKErr = f.HPACKErr
				for _, x := range f.Fields {
					s.Fields = append(s.Fields, Field2{x.Name, x.Value})
				}
			}
			if f.EndStream {
				s.EndStream++
			}
		case wire.TData:
			s.Body = append(s.Body, f.Data...)
			if f.EndStream {
				s.EndStream++
			}
		case wire.TRstStream:
			s.RstCode = int64(f.Code)
		}
	}
	return out
}

func (s *SeenRequest) Get(name string) (string, int) {
	v, n := "", 0
	for _, f := range s.Fields {
		if f.Name == name {
			if n == 0 {
				v = f.Value
			}
			n++
		}
	}
	return v, n
}

func (s *SeenRequest) String() string {
	return fmt.Sprintf("stream %d: %d fields, %d body bytes, END_STREAM x%d", s.Stream, len(s.Fields), len(s.Body), s.EndStream)
}
