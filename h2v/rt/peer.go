// Package rt is the reactive toolkit: scripted peers, the handler harness,
// the flow-control ledger and the synctest bubble runner.
package rt

import (
	"bytes"
	"errors"
	"fmt"
	"io"
	"net"
	"sync"

	xh2 "golang.org/x/net/http2"
	"golang.org/x/net/http2/hpack"

	"h2v/hpackref"
	"h2v/wire"
)

// Frame is a frame received by a scripted peer, as x/net read it.
type Frame struct {
	Seq        int
	Type       byte
	Flags      byte
	Stream     uint32
	Len        int    // payload length on the wire (padding included)
	Data       []byte // DATA payload, padding stripped
	Block      []byte // header block fragment
	Fields     []hpackref.Field
	BlockDone  bool // this frame completed a header block (Fields valid unless HPACKErr)
	HPACKErr   string
	Code       uint32
	Last       uint32
	Debug      string
	Incr       uint32
	Settings   []wire.Setting
	Ack        bool
	Ping       [8]byte
	EndStream  bool
	EndHeaders bool
	Promised   uint32
}

func (f Frame) String() string {
	names := []string{"DATA", "HEADERS", "PRIORITY", "RST_STREAM", "SETTINGS", "PUSH_PROMISE", "PING", "GOAWAY", "WINDOW_UPDATE", "CONTINUATION"}
	n := fmt.Sprintf("type%d", f.Type)
	if int(f.Type) < len(names) {
		n = names[f.Type]
	}
	s := fmt.Sprintf("%s(stream=%d len=%d flags=%#x", n, f.Stream, f.Len, f.Flags)
	switch f.Type {
	case wire.TRstStream:
		s += fmt.Sprintf(" code=%d", f.Code)
	case wire.TGoAway:
		s += fmt.Sprintf(" last=%d code=%d debug=%q", f.Last, f.Code, f.Debug)
	case wire.TWindowUpdate:
		s += fmt.Sprintf(" incr=%d", f.Incr)
	case wire.TSettings:
		s += fmt.Sprintf(" ack=%v %v", f.Ack, f.Settings)
	case wire.THeaders, wire.TContinuation:
		if f.BlockDone {
			s += fmt.Sprintf(" fields=%d", len(f.Fields))
			if f.HPACKErr != "" {
				s += " hpackerr=" + f.HPACKErr
			}
		}
	}
	return s + ")"
}

// Peer is a scripted endpoint speaking raw HTTP/2 frames. The same type serves
// as client-role peer (against the SUT server) and server-role peer (against the SUT client).
type Peer struct {
	C   net.Conn
	Enc *hpackref.Enc // for header blocks this peer sends

	wmu sync.Mutex

	mu       sync.Mutex
	frames   []Frame
	readErr  error
	readDone bool
	rawIn    int64

	dec         *hpack.Decoder
	blockBuf    []byte
	blockStream uint32
	inBlock     bool

	// OnFrame, if set, is called from the reader goroutine for every frame (after it was recorded).
	OnFrame func(f Frame)
	// ExpectPreface makes the reader consume the client connection preface first (server role).
	ExpectPreface bool
	PrefaceOK     bool
	// DecoderTableSize is the SETTINGS_HEADER_TABLE_SIZE this peer advertises (for decoding what it receives).
	done     chan struct{}
	stopRead bool
	never    chan struct{}
}

func NewPeer(c net.Conn) *Peer {
	return &Peer{C: c, Enc: hpackref.NewEnc(4096), dec: hpack.NewDecoder(4096, nil), done: make(chan struct{}), never: make(chan struct{})}
}

// SetDecoderAllowed tells the peer's HPACK decoder which table size it has advertised.
func (p *Peer) SetDecoderAllowed(n uint32) { p.dec.SetAllowedMaxDynamicTableSize(n) }

// StartReader launches the reader goroutine.
func (p *Peer) StartReader() { go p.readLoop() }

// StopReading makes the reader goroutine park for ever after the frame it is reading: the peer "stops reading".
func (p *Peer) StopReading() {
	p.mu.Lock()
	p.stopRead = true
	p.mu.Unlock()
}

// Unpark lets a reader parked by StopReading finish (end of scenario).
func (p *Peer) Unpark() {
	defer func() { recover() }()
	close(p.never)
}

func (p *Peer) readLoop() {
	defer close(p.done)
	var r io.Reader = p.C
	if p.ExpectPreface {
		buf := make([]byte, len(wire.Preface))
		if _, err := io.ReadFull(r, buf); err != nil || string(buf) != wire.Preface {
			p.mu.Lock()
			p.readErr, p.readDone = fmt.Errorf("bad preface: %q %v", buf, err), true
			p.mu.Unlock()
			return
		}
		p.mu.Lock()
		p.PrefaceOK = true
		p.mu.Unlock()
	}
	fr := xh2.NewFramer(io.Discard, r)
	fr.AllowIllegalReads = true
	fr.SetMaxReadFrameSize(1<<24 - 1)
	for {
		xf, err := fr.ReadFrame()
		if se, ok := err.(xh2.StreamError); ok {
			// x/net refuses the frame (for instance a WINDOW_UPDATE with increment 0) but has consumed it: note it
			// and keep reading, so that one bad frame does not silence everything that follows
			noteRejected(fmt.Sprintf("frame on stream %d rejected by the independent reader: %v", se.StreamID, se))
			continue
		}
		if err != nil {
			if ce, ok := err.(xh2.ConnectionError); ok {
				noteRejected(fmt.Sprintf("frame rejected by the independent reader as a connection error: %v (%s)", ce, fr.ErrorDetail()))
			}
			p.mu.Lock()
			p.readErr, p.readDone = err, true
			p.mu.Unlock()
			return
		}
		f := p.convert(xf)
		p.mu.Lock()
		if p.stopRead {
			p.mu.Unlock()
			<-p.never // parked: nothing drains the connection any more
			p.mu.Lock()
			p.readDone = true
			p.mu.Unlock()
			return
		}
		f.Seq = len(p.frames)
		p.frames = append(p.frames, f)
		cb := p.OnFrame
		p.mu.Unlock()
		if cb != nil {
			cb(f)
		}
	}
}

func (p *Peer) convert(xf xh2.Frame) Frame {
	h := xf.Header()
	f := Frame{Type: byte(h.Type), Flags: byte(h.Flags), Stream: h.StreamID, Len: int(h.Length)}
	// header block sequencing (RFC 7540 6.2, 6.10): between a HEADERS / PUSH_PROMISE frame without END_HEADERS and the
	// CONTINUATION that carries it, nothing but CONTINUATION frames on that stream; a CONTINUATION frame nowhere else.
	// The Framer runs with AllowIllegalReads (so that the oracles see what was sent), which switches its own check off.
	if _, isCont := xf.(*xh2.ContinuationFrame); p.inBlock && !(isCont && h.StreamID == p.blockStream) {
		noteRejected(fmt.Sprintf("%v frame on stream %d inside the header block of stream %d, which has not had END_HEADERS (a conforming reader: connection error PROTOCOL_ERROR)", h.Type, h.StreamID, p.blockStream))
		p.inBlock = false
	} else if isCont && !p.inBlock {
		noteRejected(fmt.Sprintf("CONTINUATION frame on stream %d without a header block to continue (a conforming reader: connection error PROTOCOL_ERROR)", h.StreamID))
	}
	block := func(frag []byte, end bool) {
		f.Block = append([]byte{}, frag...)
		if !p.inBlock {
			p.inBlock, p.blockStream, p.blockBuf = true, h.StreamID, nil
		}
		p.blockBuf = append(p.blockBuf, frag...)
		if end {
			p.inBlock = false
			f.BlockDone = true
			fs, err := p.dec.DecodeFull(p.blockBuf)
			if err != nil {
				f.HPACKErr = err.Error()
			}
			for _, x := range fs {
				f.Fields = append(f.Fields, hpackref.Field{Name: x.Name, Value: x.Value, Sensitive: x.Sensitive})
			}
		}
	}
	switch x := xf.(type) {
	case *xh2.DataFrame:
		f.Data, f.EndStream = append([]byte{}, x.Data()...), x.StreamEnded()
	case *xh2.HeadersFrame:
		f.EndStream, f.EndHeaders = x.StreamEnded(), x.HeadersEnded()
		block(x.HeaderBlockFragment(), x.HeadersEnded())
	case *xh2.ContinuationFrame:
		f.EndHeaders = x.HeadersEnded()
		block(x.HeaderBlockFragment(), x.HeadersEnded())
	case *xh2.PushPromiseFrame:
		f.Promised, f.EndHeaders = x.PromiseID, x.HeadersEnded()
		block(x.HeaderBlockFragment(), x.HeadersEnded())
	case *xh2.RSTStreamFrame:
		f.Code = uint32(x.ErrCode)
	case *xh2.SettingsFrame:
		f.Ack = x.IsAck()
		for i := 0; i < x.NumSettings(); i++ {
			s := x.Setting(i)
			f.Settings = append(f.Settings, wire.Setting{ID: uint16(s.ID), Val: s.Val})
		}
	case *xh2.PingFrame:
		f.Ack, f.Ping = x.IsAck(), x.Data
	case *xh2.GoAwayFrame:
		f.Last, f.Code, f.Debug = x.LastStreamID, uint32(x.ErrCode), string(x.DebugData())
	case *xh2.WindowUpdateFrame:
		f.Incr = x.Increment
	}
	return f
}

// Write sends raw bytes (whole frames) to the SUT.
func (p *Peer) Write(b []byte) error {
	p.wmu.Lock()
	defer p.wmu.Unlock()
	_, err := p.C.Write(b)
	return err
}

// Frames returns a snapshot of everything received so far.
func (p *Peer) Frames() []Frame {
	p.mu.Lock()
	defer p.mu.Unlock()
	return append([]Frame{}, p.frames...)
}

// FramesFrom returns the frames received from index i on (a copy of the tail only).
func (p *Peer) FramesFrom(i int) []Frame {
	p.mu.Lock()
	defer p.mu.Unlock()
	if i >= len(p.frames) {
		return nil
	}
	return append([]Frame{}, p.frames[i:]...)
}

// NFrames returns how many frames were received so far.
func (p *Peer) NFrames() int {
	p.mu.Lock()
	defer p.mu.Unlock()
	return len(p.frames)
}

// ReadState reports whether the reader has stopped and why.
func (p *Peer) ReadState() (done bool, err error) {
	p.mu.Lock()
	defer p.mu.Unlock()
	return p.readDone, p.readErr
}

// ReadEndedCleanly: the SUT closed the connection (EOF or reset), as opposed to sending bytes x/net could not frame.
func (p *Peer) ReadEndedCleanly() bool {
	done, err := p.ReadState()
	if !done {
		return false
	}
	var ne net.Error
	return errors.Is(err, io.EOF) || errors.Is(err, io.ErrUnexpectedEOF) || errors.Is(err, net.ErrClosed) || errors.As(err, &ne)
}

// ---- frame builders ---------------------------------------------------------------

type Prio struct {
	Dep    uint32
	Excl   bool
	Weight byte
}

// HeaderFrames cuts a header block into HEADERS + CONTINUATION frames at the given byte offsets
// (offsets may repeat, producing empty CONTINUATION frames).
func HeaderFrames(stream uint32, block []byte, splits []int, padLen int, prio *Prio, endStream bool) [][]byte {
	var parts [][]byte
	prev := 0
	for _, s := range splits {
		if s < prev {
			s = prev
		}
		if s > len(block) {
			s = len(block)
		}
		parts = append(parts, block[prev:s])
		prev = s
	}
	parts = append(parts, block[prev:])
	// no frame may exceed the default SETTINGS_MAX_FRAME_SIZE: cut oversized fragments further
	{
		var capped [][]byte
		for i, part := range parts {
			limit := 16384
			if i == 0 {
				if prio != nil {
					limit -= 5
				}
				if padLen >= 0 {
					limit -= 1 + padLen
				}
			}
			for len(part) > limit {
				capped = append(capped, part[:limit])
				part = part[limit:]
				limit = 16384
			}
			capped = append(capped, part)
		}
		parts = capped
	}
	var out [][]byte
	for i, part := range parts {
		last := i == len(parts)-1
		var flags byte
		if last {
			flags |= wire.FEndHeaders
		}
		if i == 0 {
			payload := []byte{}
			if endStream {
				flags |= wire.FEndStream
			}
			if prio != nil {
				flags |= wire.FPriority
				payload = wire.PriorityFields(prio.Dep, prio.Excl, prio.Weight)
			}
			payload = append(payload, part...)
			if padLen >= 0 {
				flags |= wire.FPadded
				payload = wire.Pad(payload, padLen)
			}
			out = append(out, wire.Frame(nil, wire.THeaders, flags, stream, payload, -1))
		} else {
			out = append(out, wire.Frame(nil, wire.TContinuation, flags, stream, part, -1))
		}
	}
	return out
}

// DataFrames cuts body into DATA frames of the given chunk sizes (cycled; 0 produces an empty frame once),
// pads[i] < 0 means no padding. endStream puts END_STREAM on the last frame.
func DataFrames(stream uint32, body []byte, chunks []int, pads []int, endStream bool) [][]byte {
	var out [][]byte
	i := 0
	rest := body
	emit := func(part []byte, end bool) {
		var flags byte
		if end {
			flags |= wire.FEndStream
		}
		payload := part
		if len(pads) > 0 && pads[i%len(pads)] >= 0 {
			flags |= wire.FPadded
			payload = wire.Pad(part, pads[i%len(pads)])
		}
		out = append(out, wire.Frame(nil, wire.TData, flags, stream, payload, -1))
		i++
	}
	for len(rest) > 0 {
		n := 16384
		if len(chunks) > 0 {
			n = chunks[i%len(chunks)]
		}
		if len(pads) > 0 && pads[i%len(pads)] >= 0 && n+1+pads[i%len(pads)] > 16384 {
			n = 16384 - 1 - pads[i%len(pads)]
		}
		if n > len(rest) {
			n = len(rest)
		}
		if n == 0 {
			emit(nil, false)
			if len(chunks) > 0 {
				// make progress: an all-zero chunk list would never end
				allZero := true
				for _, c := range chunks {
					allZero = allZero && c == 0
				}
				if allZero {
					chunks = nil
				}
			}
			continue
		}
		part := rest[:n]
		rest = rest[n:]
		emit(part, endStream && len(rest) == 0)
	}
	if len(body) == 0 && endStream {
		emit(nil, true)
	}
	return out
}

// EncodeBlock encodes fields with the peer's encoder using per-field choices (cycled).
func (p *Peer) EncodeBlock(fields []hpackref.Field, choices []hpackref.Choice) []byte {
	var out []byte
	for i, f := range fields {
		c := hpackref.Choice{Rep: hpackref.RepWithout}
		if len(choices) > 0 {
			c = choices[i%len(choices)]
		}
		out, _ = p.Enc.Field(out, f, c)
	}
	return out
}

func Concat(frames [][]byte) []byte { return bytes.Join(frames, nil) }

func SettingsFrame(ss ...wire.Setting) []byte {
	return wire.Frame(nil, wire.TSettings, 0, 0, wire.SettingsPayload(ss), -1)
}
func SettingsAck() []byte { return wire.Frame(nil, wire.TSettings, wire.FAck, 0, nil, -1) }
func WindowUpdate(stream, incr uint32) []byte {
	return wire.Frame(nil, wire.TWindowUpdate, 0, stream, wire.U32(incr), -1)
}
func RstStream(stream, code uint32) []byte {
	return wire.Frame(nil, wire.TRstStream, 0, stream, wire.U32(code), -1)
}
func Ping(ack bool, data string) []byte {
	var fl byte
	if ack {
		fl = wire.FAck
	}
	d := make([]byte, 8)
	copy(d, data)
	return wire.Frame(nil, wire.TPing, fl, 0, d, -1)
}
func GoAway(last, code uint32, debug string) []byte {
	return wire.Frame(nil, wire.TGoAway, 0, 0, wire.GoAwayPayload(last, code, []byte(debug)), -1)
}
func Priority(stream, dep uint32, excl bool, weight byte) []byte {
	return wire.Frame(nil, wire.TPriority, 0, stream, wire.PriorityFields(dep, excl, weight), -1)
}

var (
	rejectedMu sync.Mutex
	rejected   []string
)

func noteRejected(s string) {
	rejectedMu.Lock()
	if len(rejected) < 100 {
		rejected = append(rejected, s)
	}
	rejectedMu.Unlock()
}

// TakeRejected returns, and forgets, the frames that scripted peers' independent reader (x/net) refused since the last call.
func TakeRejected() []string {
	rejectedMu.Lock()
	defer rejectedMu.Unlock()
	out := rejected
	rejected = nil
	return out
}
