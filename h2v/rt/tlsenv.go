package rt

import (
	"crypto/ecdsa"
	"crypto/elliptic"
	"crypto/rand"
	"crypto/tls"
	"crypto/x509"
	"crypto/x509/pkix"
	"math/big"
	"net"
	"sync"
	"time"

	http2 "github.com/dgrr/http2"
	"github.com/valyala/fasthttp"

	"h2v/fakeconn"
	"h2v/wire"
)

var (
	certOnce sync.Once
	srvCert  tls.Certificate
)

func serverCert() tls.Certificate {
	certOnce.Do(func() {
		key, err := ecdsa.GenerateKey(elliptic.P256(), rand.Reader)
		if err != nil {
			panic(err)
		}
		tmpl := &x509.Certificate{SerialNumber: big.NewInt(1), Subject: pkix.Name{CommonName: "h2v.example"},
			NotBefore: time.Date(1990, 1, 1, 0, 0, 0, 0, time.UTC), NotAfter: time.Date(2099, 1, 1, 0, 0, 0, 0, time.UTC),
			KeyUsage: x509.KeyUsageDigitalSignature, ExtKeyUsage: []x509.ExtKeyUsage{x509.ExtKeyUsageServerAuth}, DNSNames: []string{"h2v.example"}}
		der, err := x509.CreateCertificate(rand.Reader, tmpl, tmpl, &key.PublicKey, key)
		if err != nil {
			panic(err)
		}
		srvCert = tls.Certificate{Certificate: [][]byte{der}, PrivateKey: key}
	})
	return srvCert
}

// RTConn is the scripted server's end of one connection the client dialled.
type RTConn struct {
	Index int
	P     *Peer
	Raw   *fakeconn.Conn
	Cli   *fakeconn.Conn // the client's end (fault plan, counters)
	Err   error
}

// RTEnv is a HostClient configured with ConfigureClient whose dials land on scripted TLS servers. Create it inside a bubble.
type RTEnv struct {
	CaseID string
	HC     *fasthttp.HostClient
	Client *http2.Client
	mu     sync.Mutex
	conns  []*RTConn
	// FailDial makes dial number >= FailDial fail (0: never)
	FailDial int
	// HangDial makes dial number >= HangDial reach a server that accepts the connection and never says a word (0: never)
	HangDial int
	hung     []*fakeconn.Conn
	dials    int
	Settings []wire.Setting
	// OnFrame, if set before the first dial, is called from each connection's reader goroutine for every
	// frame the scripted server receives (after the automatic PING reply).
	OnFrame func(rc *RTConn, f Frame)
	// CapToServer / CapToClient are the transport buffer sizes of every connection dialled (0: 4 MiB).
	CapToServer, CapToClient int
	// NoConnGrant: the scripted servers do not open their connection window beyond the initial 65535
	NoConnGrant bool
}

func NewRTEnv(caseID string, opts http2.ClientOpts, serverSettings []wire.Setting) (*RTEnv, error) {
	return NewRTEnvWith(caseID, opts, serverSettings, nil)
}

// NewRTEnvWith lets the caller set fields (OnFrame, capacities, FailDial) before the first connection is dialled
// (ConfigureClient dials one at once).
func NewRTEnvWith(caseID string, opts http2.ClientOpts, serverSettings []wire.Setting, prepare func(*RTEnv)) (*RTEnv, error) {
	e := &RTEnv{CaseID: caseID, Settings: serverSettings}
	if prepare != nil {
		prepare(e)
	}
	cert := serverCert()
	e.HC = &fasthttp.HostClient{Addr: "h2v.example:443", IsTLS: true, TLSConfig: &tls.Config{InsecureSkipVerify: true}, MaxIdemponentCallAttempts: 1}
	e.HC.Dial = func(addr string) (net.Conn, error) {
		e.mu.Lock()
		e.dials++
		n := e.dials
		fd, hd := e.FailDial, e.HangDial
		e.mu.Unlock()
		if fd != 0 && n >= fd {
			return nil, &net.OpError{Op: "dial", Net: "fake", Err: net.ErrClosed}
		}
		if hd != 0 && n >= hd {
			cli, srv := fakeconn.Pair(4<<20, 4<<20)
			e.mu.Lock()
			e.hung = append(e.hung, srv)
			e.mu.Unlock()
			return cli, nil
		}
		capS, capC := e.CapToServer, e.CapToClient
		if capS == 0 {
			capS = 4 << 20
		}
		if capC == 0 {
			capC = 4 << 20
		}
		cli, srv := fakeconn.Pair(capS, capC)
		rc := &RTConn{Index: n - 1, Raw: srv, Cli: cli}
		e.mu.Lock()
		e.conns = append(e.conns, rc)
		e.mu.Unlock()
		go func() {
			tc := tls.Server(srv, &tls.Config{Certificates: []tls.Certificate{cert}, NextProtos: []string{"h2"}})
			if err := tc.Handshake(); err != nil {
				rc.Err = err
				return
			}
			p := NewPeer(tc)
			p.ExpectPreface = true
			p.OnFrame = func(f Frame) {
				if f.Type == wire.TPing && !f.Ack {
					p.Write(wire.Frame(nil, wire.TPing, wire.FAck, 0, f.Ping[:], -1))
				}
				if e.OnFrame != nil {
					e.OnFrame(rc, f)
				}
			}
			e.mu.Lock()
			rc.P = p
			e.mu.Unlock()
			p.Write(append(SettingsFrame(e.Settings...), SettingsAck()...))
			if !e.NoConnGrant {
				p.Write(WindowUpdate(0, 1<<24))
			}
			p.readLoop()
		}()
		return cli, nil
	}
	if err := http2.ConfigureClient(e.HC, opts); err != nil {
		return e, err
	}
	e.Client = http2.ClientFrom(e.HC)
	return e, nil
}

// Conns returns the connections dialled so far whose TLS handshake has completed.
func (e *RTEnv) Conns() []*RTConn {
	e.mu.Lock()
	defer e.mu.Unlock()
	var out []*RTConn
	for _, c := range e.conns {
		if c.P != nil {
			out = append(out, c)
		}
	}
	return out
}

// Close shuts the client and every scripted connection down.
func (e *RTEnv) Close() {
	if e.Client != nil {
		e.Client.Close()
	}
	e.mu.Lock()
	cs := append([]*RTConn{}, e.conns...)
	e.mu.Unlock()
	for _, c := range cs {
		c.Raw.Close()
	}
	e.ReleaseHung()
}

// SetHangDial sets HangDial while the client is running.
func (e *RTEnv) SetHangDial(n int) {
	e.mu.Lock()
	e.HangDial = n
	e.mu.Unlock()
}

// Dials returns how many times the client has dialled.
func (e *RTEnv) Dials() int {
	e.mu.Lock()
	defer e.mu.Unlock()
	return e.dials
}

// ReleaseHung disconnects the silent servers of HangDial.
func (e *RTEnv) ReleaseHung() {
	e.mu.Lock()
	hs := e.hung
	e.hung = nil
	e.mu.Unlock()
	for _, h := range hs {
		h.Close()
	}
}
