#!/bin/bash
# usage: seed_run.sh <patch.diff> <prop> [tier]   — applies the patch to /repo, runs the check, reverts
set -u
P=$1; PROP=$2; TIER=${3:-quick}
cd /repo && git diff --quiet || { echo "/repo dirty"; exit 2; }
git -C /repo apply "$P" || { echo "PATCH DOES NOT APPLY"; exit 2; }
cd /verif && ./bin/vcheck run $PROP --tier $TIER > /tmp/seedrun.$$.log 2>&1; rc=$?
git -C /repo checkout -- .
grep -c '^VIOLATION' /tmp/seedrun.$$.log | sed 's/^/violations: /'; grep -A2 '^VIOLATION' /tmp/seedrun.$$.log | head -8 | cut -c1-400; tail -1 /tmp/seedrun.$$.log | cut -c1-200; echo "exit=$rc"; rm -f /tmp/seedrun.$$.log
