#!/bin/bash
# Diagnostic, not a check: statement coverage of dgrr/http2 reached by the quick tier of the bubble-mode workers
# (C19's real-time rounds are not included). Used to look for library code no monitor ever drives.
# usage: bin/coverage.sh [outdir]   (default /tmp/h2v-cov; removed and recreated)
set -u
cd "$(dirname "$0")/.."; ROOT=$(pwd)
OUT=${1:-/tmp/h2v-cov}; rm -rf "$OUT"; mkdir -p "$OUT"
(cd h2v && "$ROOT/bin/vgo" test -c -tags verif -vet=off -cover -coverpkg=github.com/dgrr/http2,github.com/dgrr/http2/http2utils -o "$OUT/w.test" ./workers) || exit 3
for id in 01 02 03 04 05 06 07 08 09 10 11 12 13 14 15 16 17 18 20; do
  for sh in 0 1 2 3 4 5 6 7; do
    (cd "$OUT" && VERIF_SEED=${VERIF_SEED:-1} VERIF_TIER=quick VERIF_SHARD=$sh VERIF_NSHARDS=8 VERIF_OUT=$OUT/o.$id.$sh VERIF_ROOT=$ROOT timeout 900 ./w.test -test.run "^TestC$id\$" -test.timeout 0 -test.coverprofile=$OUT/p.$id.$sh > $OUT/l.$id.$sh 2>&1) &
  done; wait
done
python3 - "$OUT" <<'PY'
import glob,collections,sys
out=sys.argv[1]
cnt=collections.defaultdict(int); stm={}
for f in glob.glob(out+'/p.*'):
    for l in open(f):
        if l.startswith('mode:'): continue
        key,ns,c=l.rsplit(' ',2); stm[key]=int(ns); cnt[key]+=int(c)
open(out+'/merged.out','w').write('mode: count\n'+''.join(f"{k} {stm[k]} {cnt[k]}\n" for k in stm))
tot=sum(stm.values()); cov=sum(stm[k] for k in stm if cnt[k]>0)
print(f"statements {tot} covered {cov} ({100*cov/tot:.1f}%)")
un=collections.defaultdict(list)
for k in stm:
    if cnt[k]==0:
        f,rng=k.split(':'); a,b=rng.split(','); un[f.split('/')[-1]].append((int(a.split('.')[0]),int(b.split('.')[0])))
for f in sorted(un): print(f, ' '.join(f"{a}-{b}" for a,b in sorted(un[f])))
PY
rm -f "$OUT"/w.test "$OUT"/o.* "$OUT"/p.* "$OUT"/l.*
