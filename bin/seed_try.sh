#!/bin/bash
# usage: seed_try.sh <patch.diff> <prop> [tier]  — development aid: judges a scratch worktree carrying the patch (VERIF_REPO),
# so several seeds can be tried in parallel and /repo is never touched. RESULTS.tsv is still produced by seed_all.sh on /repo itself.
set -u
P=$(readlink -f "$1"); PROP=$2; TIER=${3:-quick}
WT=/tmp/st_$$_$PROP
git -C /repo worktree add --detach "$WT" HEAD >/dev/null 2>&1 || exit 2
trap 'git -C /repo worktree remove --force "$WT" >/dev/null 2>&1' EXIT
git -C "$WT" apply "$P" || { echo "PATCH DOES NOT APPLY"; exit 2; }
cd "$(dirname "$0")/.." && VERIF_REPO="$WT" ./bin/vcheck run $PROP --tier $TIER > "$WT.log" 2>&1; rc=$?
grep -c '^VIOLATION' "$WT.log" | sed 's/^/violations: /'; grep -A2 '^VIOLATION' "$WT.log" | head -12 | cut -c1-400; tail -1 "$WT.log" | cut -c1-200; echo "exit=$rc"; rm -f "$WT.log"
