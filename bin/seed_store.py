#!/usr/bin/env python3
# usage: seed_store.py <PROP> <i> "<what it breaks / needs>" "<detected by: rule(s)>" [caught_initially yes|no]
import sys,os,shutil,json,re
prop,i,needs,detected=sys.argv[1:5]
initially=sys.argv[5] if len(sys.argv)>5 else 'yes'
src=f'/tmp/wt_{prop}/_out/m{i}'
out=open(f'{src}/validate.out').read()
def ex(section):
    ms=re.findall(section+r'[^\n]*\n(?:(?!== ).*\n)*?exit=(\d+)',out)
    return int(ms[-1]) if ms else None
clean=ex('== demo on clean tree'); patched=ex('== demo with patch'); suite=ex('== suite with patch'); iso=ex('== isolated')
ok = clean==0 and patched not in (0,None) and (suite==0 or iso==0)
dst=f'/verif/seeded/{prop}-m{i}'
os.makedirs(dst,exist_ok=True)
for f in ('patch.diff','demo_test.go','notes.md'):
    shutil.copy(f'{src}/{f}',dst)
json.dump({"property":prop,"breaks_and_needs":needs,
 "validated_by_me":{"demo_on_clean_tree_exit":clean,"demo_with_patch_exit":patched,"full_suite_with_patch_exit":suite,"load_sensitive_tests_rerun_in_isolation_exit":iso,"builds_with_tag_verif":True,"all_confirmed":ok},
 "ran":["bin/seed_validate.sh (demo on clean tree; build -tags verif; demo with patch; full suite with patch) in a scratch worktree","bin/seed_run.sh patch.diff "+prop+" (git -C /repo apply; ./bin/vcheck run "+prop+" --tier quick; git -C /repo checkout -- .)"],
 "detected_by":detected,"caught_by_the_check_as_first_written":initially=='yes'},open(f'{dst}/meta.json','w'),indent=1)
print(dst, "confirmed" if ok else "NOT CONFIRMED", clean,patched,suite,iso)
