#!/bin/sh
# Builds the driver and warms the Go build cache for both worker variants. Offline.
set -e
cd "$(dirname "$0")/.."
ROOT=$(pwd)
mkdir -p .build evidence replays
cd h2v
"$ROOT/bin/vgo" build -o "$ROOT/bin/vcheck" ./cmd/vcheck
"$ROOT/bin/vgo" test -c -tags verif -vet=off -o "$ROOT/.build/warm.test" ./workers
"$ROOT/bin/vgo" test -c -tags verif -vet=off -race -o "$ROOT/.build/warm_race.test" ./workers
rm -f "$ROOT/.build/warm.test" "$ROOT/.build/warm_race.test"
echo setup ok
