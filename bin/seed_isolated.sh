#!/bin/bash
# usage: seed_isolated.sh <worktree> <mutation dir>: for a suite run that failed only load-sensitive tests, re-run exactly those tests alone with the patch
WT=$1; M=$2; GO=/verif/bin/vgo
LOG=$M/v_suite.log; [ -f $M/v_suite_rerun.log ] && LOG=$M/v_suite_rerun.log
FAILED=$(grep -E '^--- FAIL: ' $LOG | sed -E 's/^--- FAIL: ([A-Za-z0-9_]+).*/\1/' | sort -u)
[ -z "$FAILED" ] && { echo "no failing tests in $LOG"; exit 0; }
for t in $FAILED; do case $t in TestStressManyClients|TestClosedStreamTableGrowth|TestClientStreamedBodyDoesNotBuffer|TestTimedOutRequestsDoNotPoisonTheConnection|TestSoakUploads|TestSoakConnectionChurn|TestSoakLongLivedConnections) ;; *) echo "non-flaky test failed: $t"; echo "== isolated" >> $M/validate.out; echo "exit=9" >> $M/validate.out; exit 1;; esac; done
cd "$WT" && git checkout -q -- . && git clean -fdq -e _out && git apply "$M/patch.diff" || exit 2
PAT=$(echo $FAILED | tr ' ' '|')
$GO test -vet=off -count=3 -timeout 25m -run "^($PAT)\$" . > "$M/v_isolated.log" 2>&1; rc=$?
echo "== isolated ($PAT, -count=3, with patch; the full-suite run failed only these load-sensitive tests)" >> "$M/validate.out"; echo "exit=$rc" >> "$M/validate.out"
git checkout -q -- . ; git clean -fdq -e _out
echo "$M isolated [$PAT] exit=$rc"
