#!/bin/bash
# usage: seed_revalidate.sh <worktree> <mutation dir> : re-runs the full suite with the patch once more (for load flakes)
WT=$1; M=$2; GO=/verif/bin/vgo
cd "$WT" && git checkout -q -- . && git clean -fdq -e _out && git apply "$M/patch.diff" || exit 2
$GO test -vet=off -count=1 -timeout 25m ./... > "$M/v_suite_rerun.log" 2>&1; rc=$?
echo "== suite with patch" >> "$M/validate.out"; echo "(rerun after a load flake; first run kept in v_suite.log)" >> "$M/validate.out"; echo "exit=$rc" >> "$M/validate.out"
git checkout -q -- . ; git clean -fdq -e _out
echo "$M rerun exit=$rc"
