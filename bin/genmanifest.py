#!/usr/bin/env python3
# Regenerates MANIFEST.json from the table below (kept in one place so it stays valid).
import json,sys
claimed = json.load(open('/verif/manifest_claims.json'))
props=[json.loads(l) for l in open('/verif/properties.jsonl')]
checks=[]; na=[]
for p in props:
    pid=p['id']
    c=claimed.get(pid)
    if not c or c.get('na'):
        na.append({"property_id":pid,"reason":(c or {}).get('na',"check not built yet in this session; nothing is claimed for it")})
        continue
    checks.append({
      "property_id":pid,
      "quick_cmd":f"./bin/vcheck run {pid} --tier quick",
      "thorough_cmd":f"./bin/vcheck run {pid} --tier thorough",
      "evidence_file":f"/verif/evidence/{pid}.json",
      "replay_cmd_template":"./bin/vcheck replay {path}",
      "engine":"h2v",
      "level_claimed":{"category":"exploration","text":c['text'],"design_ref":c.get('design_ref',f"DESIGN.md §4 {pid}")},
      "level_note":c['note'],
      "technique":c['technique'],
    })
hooks=json.load(open('/verif/MANIFEST.hooks')) if True else {}
m={
 "version":1,
 "setup_cmd":"./bin/setup.sh",
 "hooks":hooks,
 "engines":[{"name":"h2v","path":"/verif/h2v","serves_properties":[c['property_id'] for c in checks],
   "kind_free_text":"Go harness module (replace github.com/dgrr/http2 => /repo): worker test binaries built with -tags verif from /repo's working tree on every invocation, driven by bin/vcheck; runtime monitors = differential oracles against x/net http2+hpack, ledgers, state oracle, pool tracker, race detector, synctest virtual time"}],
 "checks":checks,
 "not_applicable":na,
 "notes":"Exit codes: 0 held on everything explored (KNOWN-FINDING / INCONCLUSIVE lines possible), 1 with VIOLATION line(s), 3 harness failure or too little observed. VERIF_SEED selects the PRNG seed; case lists are fixed by (seed,tier), never by wall-clock."
}
json.dump(m,open('/verif/MANIFEST.json','w'),indent=1)
print("claimed",len(checks),"na",len(na))
