#!/bin/bash
# Applies every stored seeded mutation to /repo in turn, runs the quick check(s) that are expected to catch it, reverts.
# usage: seed_all.sh [out.tsv]
OUT=${1:-/verif/seeded/RESULTS.tsv}
cd /verif
git -C /repo diff --quiet || { echo "/repo dirty"; exit 2; }
echo -e "seed\tproperty_check\tapplies\tviolations\texit" > $OUT
for d in seeded/*/; do
  s=$(basename $d); prop=${s%%-*}
  checks=$prop
  # seeds that break their property in a way another property's monitor is the one to see (see each meta.json)
  case $s in C09-m2|C09-m5|C11-m6) checks="C14";; C12-m6) checks="C11";; C08-m9) checks="C05";; C10-m9) checks="C08";; C01-m9|C02-m7) checks="C18";; esac
  for c in $checks; do
    if git -C /repo apply --check /verif/$d/patch.diff 2>/dev/null; then
      git -C /repo apply /verif/$d/patch.diff
      ./bin/vcheck run $c --tier quick > /tmp/seedall.log 2>&1; rc=$?
      git -C /repo checkout -- .
      v=$(grep -c '^VIOLATION' /tmp/seedall.log)
      echo -e "$s\t$c\tyes\t$v\t$rc" >> $OUT
    else
      echo -e "$s\t$c\tno\t-\t-" >> $OUT
    fi
  done
done
rm -f /tmp/seedall.log
cat $OUT
