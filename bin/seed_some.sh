#!/bin/bash
# usage: seed_some.sh <seed>...  — like seed_all.sh for the named seeds only; replaces their lines in seeded/RESULTS.tsv
cd /verif
git -C /repo diff --quiet || { echo "/repo dirty"; exit 2; }
for s in "$@"; do
  d=seeded/$s; prop=${s%%-*}; c=$prop
  case $s in C09-m2|C09-m5|C11-m6) c="C14";; C12-m6) c="C11";; C08-m9) c="C05";; C10-m9) c="C08";; C01-m9|C02-m7) c="C18";; esac
  if git -C /repo apply --check /verif/$d/patch.diff 2>/dev/null; then
    git -C /repo apply /verif/$d/patch.diff
    ./bin/vcheck run $c --tier quick > /tmp/seedsome.log 2>&1; rc=$?
    git -C /repo checkout -- .
    line="$s\t$c\tyes\t$(grep -c '^VIOLATION' /tmp/seedsome.log)\t$rc"
  else
    line="$s\t$c\tno\t-\t-"
  fi
  grep -v "^$s	" seeded/RESULTS.tsv > /tmp/results.tmp; { cat /tmp/results.tmp; echo -e "$line"; } > seeded/RESULTS.tsv
  echo -e "$line"
done
{ head -1 seeded/RESULTS.tsv; tail -n +2 seeded/RESULTS.tsv | sort; } > /tmp/results.tmp && cp /tmp/results.tmp seeded/RESULTS.tsv
rm -f /tmp/seedsome.log /tmp/results.tmp
