#!/bin/bash
# usage: seed_validate.sh <worktree> <mutation dir>   — confirms demo fails with patch / passes without, suite passes with patch
set -u
WT=$1; M=$2
GO=/verif/bin/vgo
cd "$WT" || exit 2
git checkout -q -- . ; git clean -fdq -e _out
cp "$M/demo_test.go" ./zz_seeded_demo_test.go
echo "== demo on clean tree"; $GO test -vet=off -count=1 -timeout 5m -run 'TestSeededDemo' . > "$M/v_demo_clean.log" 2>&1; echo "exit=$?" | tee -a "$M/v_demo_clean.log"
git apply "$M/patch.diff" || { echo "PATCH DOES NOT APPLY"; exit 2; }
echo "== build with tag"; $GO build -tags verif ./... && echo ok
echo "== demo with patch"; $GO test -vet=off -count=1 -timeout 5m -run 'TestSeededDemo' . > "$M/v_demo_patched.log" 2>&1; echo "exit=$?" | tee -a "$M/v_demo_patched.log"
rm -f zz_seeded_demo_test.go
echo "== suite with patch"; $GO test -vet=off -count=1 -timeout 25m ./... > "$M/v_suite.log" 2>&1; echo "exit=$?" | tee -a "$M/v_suite.log"; grep -v "no test files" "$M/v_suite.log" | tail -4
git checkout -q -- . ; git clean -fdq -e _out
