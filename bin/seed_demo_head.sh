#!/bin/bash
# usage: seed_demo_head.sh <mutation dir>...  — re-confirms on /repo's current HEAD (scratch worktree) that each demonstration
# passes on the clean tree and fails with the patch. One line per seed.
GO=/verif/bin/vgo
for M in "$@"; do
  M=$(readlink -f "$M"); WT=/tmp/sdh_$$_$(basename "$M")
  git -C /repo worktree add --detach "$WT" HEAD >/dev/null 2>&1 || { echo "$M worktree failed"; continue; }
  cp "$M/demo_test.go" "$WT/zz_seeded_demo_test.go"
  ( cd "$WT" && $GO test -vet=off -count=1 -timeout 5m -run 'TestSeededDemo' . >/dev/null 2>&1 ); c=$?
  if git -C "$WT" apply "$M/patch.diff" 2>/dev/null; then
    ( cd "$WT" && $GO test -vet=off -count=1 -timeout 5m -run 'TestSeededDemo' . >/dev/null 2>&1 ); p=$?
  else p=noapply; fi
  echo "$M clean=$c patched=$p"
  git -C /repo worktree remove --force "$WT" >/dev/null 2>&1
done
