#!/bin/bash
# usage: bin/sweep.sh <tier> <seed>... ; runs every claimed check at each seed, prints one line per run.
# Evidence files are rewritten by each run (last seed wins); re-run seed 1 afterwards if the evidence is to be committed.
tier=$1; shift
cd "$(dirname "$0")/.."
for s in "$@"; do
 for i in 01 02 03 04 05 06 07 08 09 10 11 12 13 14 15 16 17 18 19 20; do
  out=$(VERIF_SEED=$s ./bin/vcheck run C$i --tier $tier 2>&1); rc=$?
  echo "seed=$s rc=$rc $(echo "$out" | grep -E "^C$i tier" | tail -1)"
  [ $rc -ne 0 ] && echo "$out" | grep -E "VIOLATION|INCONCLUSIVE|harness|panic|FAIL" | head -10
 done
done
